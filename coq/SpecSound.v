(* SpecSound.v: the executable acceptor of Spec.v ([judge_op]) related to the map specification
   [LazyRefine.op_spec] that the sequential model is proved to satisfy.  Until this file Spec.v was
   trusted.  For the normal-mode operations ([normal_op]) on a present, not moved-from table slot:
     1. the representation invariant of the acceptor's association lists ([srep], [ssize_keys]);
     2. the acceptor's equality on outputs is equality of normal forms ([norm_out]);
     3. SOUNDNESS of acceptance ([judge_sound], [judge_sound_lookup]): nothing blamed -> the
        printed result and the acceptor's new contents are those of [op_spec] ITSELF, for every
        normal-mode operation (insert family, rehash and reserve included: the three weakenings
        W1-W3 the first version of this file needed were closed by tightening Spec.v);
     4. COMPLETENESS ([judge_complete]): an output conforming to [op_spec] with consistent
        observations ([obs_consistent]) is not blamed and the new list represents the new map;
     5. composition with the model ([model_accepted], [model_accepted_lookup],
        [model_accepted_insert]): the sequential model's own outputs are accepted;
     6. the statistics clauses ([judge_stats_nil]);
     7. the former findings W1-W3 as Examples (those outputs are now blamed) and non-vacuity
        instances.
   The activity flag [st_act] plays no role: [judge_op] judges the normal-mode operations the same
   way whether or not a locked_table is active, so no hypothesis on it is needed (it is preserved:
   [post_ok]). *)
From Coq Require Import NArith ZArith List Bool Arith Lia.
From LC Require Import gen.HashGen Bits Core Api InvDefs Refine Lazy LazyRefine Spec.
Import ListNotations.
Local Open Scope N_scope.

(* ================================================================== 1. the acceptor's maps *)

Definition srep (sm : smap) (m : amap) : Prop :=
  NoDup (map fst sm) /\ forall k, sfind k sm = m k.

(* the canonical abstract map of an association list *)
Definition amap_of (sm : smap) : amap := fun k => sfind k sm.

Lemma sfind_none_notin k sm : sfind k sm = None <-> ~ In k (map fst sm).
Proof.
  induction sm as [|[k' v] r IH]; cbn [sfind map fst In].
  - split; [intros _ []|reflexivity].
  - destruct (N.eqb_spec k' k) as [E|E].
    + split; [discriminate|]. intro H. exfalso. apply H. left. exact E.
    + rewrite IH. split.
      * intros H [H1|H1]; [contradiction|exact (H H1)].
      * intros H H1. apply H. right. exact H1.
Qed.

Lemma sfind_some_in k v sm : sfind k sm = Some v -> In k (map fst sm).
Proof.
  intro H. destruct (in_dec N.eq_dec k (map fst sm)) as [I|I]; [exact I|].
  apply sfind_none_notin in I. congruence.
Qed.

Lemma sremove_keys_subset k k' sm : In k' (map fst (sremove k sm)) -> In k' (map fst sm) /\ k' <> k.
Proof.
  induction sm as [|[k0 v] r IH]; cbn [sremove map fst In]; [intros []|].
  destruct (N.eqb_spec k0 k) as [E|E].
  - intro H. destruct (IH H) as [H1 H2]. split; [right; exact H1|exact H2].
  - cbn [map fst In]. intros [H|H].
    + split; [left; exact H|congruence].
    + destruct (IH H) as [H1 H2]. split; [right; exact H1|exact H2].
Qed.

Lemma sfind_sremove_same k sm : sfind k (sremove k sm) = None.
Proof.
  apply sfind_none_notin. intro H. apply sremove_keys_subset in H. destruct H as [_ H]. congruence.
Qed.

Lemma sfind_sremove_other k k' sm : k' <> k -> sfind k' (sremove k sm) = sfind k' sm.
Proof.
  intro Hne. induction sm as [|[k0 v] r IH]; cbn [sremove sfind]; [reflexivity|].
  destruct (N.eqb_spec k0 k) as [E|E].
  - rewrite IH. destruct (N.eqb_spec k0 k') as [E'|E']; [congruence|reflexivity].
  - cbn [sfind]. rewrite IH. reflexivity.
Qed.

Lemma sfind_sset_same k v sm : sfind k (sset k v sm) = Some v.
Proof. unfold sset. cbn [sfind]. rewrite N.eqb_refl. reflexivity. Qed.

Lemma sfind_sset_other k k' v sm : k' <> k -> sfind k' (sset k v sm) = sfind k' sm.
Proof.
  intro Hne. unfold sset. cbn [sfind]. destruct (N.eqb_spec k k') as [E|E]; [congruence|].
  apply sfind_sremove_other. exact Hne.
Qed.

Lemma sremove_nodup k sm : NoDup (map fst sm) -> NoDup (map fst (sremove k sm)).
Proof.
  induction sm as [|[k0 v] r IH]; cbn [sremove map fst]; intro H; [constructor|].
  inversion H as [|x l Hni Hnd]; subst.
  destruct (N.eqb_spec k0 k) as [E|E]; [exact (IH Hnd)|].
  cbn [map fst]. constructor; [|exact (IH Hnd)].
  intro Hin. apply sremove_keys_subset in Hin. destruct Hin as [Hin _]. exact (Hni Hin).
Qed.

Lemma sset_nodup k v sm : NoDup (map fst sm) -> NoDup (map fst (sset k v sm)).
Proof.
  intro H. unfold sset. cbn [map fst]. constructor; [|apply sremove_nodup; exact H].
  intro Hin. apply sremove_keys_subset in Hin. destruct Hin as [_ Hne]. congruence.
Qed.

(* [sremove] of an absent key is the identity; with unique keys it removes exactly one pair *)
Lemma sremove_absent k sm : sfind k sm = None -> sremove k sm = sm.
Proof.
  induction sm as [|[k0 v] r IH]; cbn [sremove sfind]; [reflexivity|].
  destruct (N.eqb_spec k0 k) as [E|E]; [discriminate|]. intro H. rewrite (IH H). reflexivity.
Qed.

Lemma sremove_length_present k v sm :
  NoDup (map fst sm) -> sfind k sm = Some v -> S (length (sremove k sm)) = length sm.
Proof.
  induction sm as [|[k0 v0] r IH]; cbn [sremove sfind map fst length]; [discriminate|].
  intros Hnd Hf. inversion Hnd as [|x l Hni Hnd']; subst.
  destruct (N.eqb_spec k0 k) as [E|E].
  - subst k0. rewrite sremove_absent; [reflexivity|]. apply sfind_none_notin. exact Hni.
  - cbn [length]. rewrite (IH Hnd' Hf). reflexivity.
Qed.

(* the representation is preserved by the two updates, and starts from the empty list *)
Lemma srep_nil : srep [] mempty.
Proof. split; [constructor|reflexivity]. Qed.

Lemma srep_amap_of sm : NoDup (map fst sm) -> srep sm (amap_of sm).
Proof. intro H. split; [exact H|reflexivity]. Qed.

Lemma srep_meq sm m m' : srep sm m -> meq m m' -> srep sm m'.
Proof. intros [H1 H2] E. split; [exact H1|]. intro k. rewrite H2. apply E. Qed.

Lemma srep_fun sm m m' : srep sm m -> srep sm m' -> meq m m'.
Proof. intros [_ H1] [_ H2] k. rewrite <- H1, <- H2. reflexivity. Qed.

Lemma srep_sset sm m k v : srep sm m -> srep (sset k v sm) (mset m k (Some v)).
Proof.
  intros [H1 H2]. split; [apply sset_nodup; exact H1|]. intro k'. unfold mset.
  destruct (N.eqb_spec k' k) as [->|E]; [apply sfind_sset_same|].
  rewrite sfind_sset_other by exact E. apply H2.
Qed.

Lemma srep_sremove sm m k : srep sm m -> srep (sremove k sm) (mset m k None).
Proof.
  intros [H1 H2]. split; [apply sremove_nodup; exact H1|]. intro k'. unfold mset.
  destruct (N.eqb_spec k' k) as [->|E]; [apply sfind_sremove_same|].
  rewrite sfind_sremove_other by exact E. apply H2.
Qed.

(* [ssize] counts the keys of the represented map: the key list is duplicate-free and
   enumerates exactly the domain *)
Definition keys_of (l : list N) (m : amap) : Prop :=
  NoDup l /\ forall k, In k l <-> m k <> None.

Lemma srep_keys sm m : srep sm m -> keys_of (map fst sm) m.
Proof.
  intros [H1 H2]. split; [exact H1|]. intro k. rewrite <- H2. split.
  - intros Hin Hn. apply sfind_none_notin in Hn. exact (Hn Hin).
  - intro Hn. destruct (in_dec N.eq_dec k (map fst sm)) as [I|I]; [exact I|].
    apply sfind_none_notin in I. contradiction.
Qed.

Lemma keys_of_length l l' m : keys_of l m -> keys_of l' m -> length l = length l'.
Proof.
  intros [N1 H1] [N2 H2]. apply Nat.le_antisymm; apply NoDup_incl_length; try assumption.
  - intros k Hk. apply H2. apply H1. exact Hk.
  - intros k Hk. apply H1. apply H2. exact Hk.
Qed.

Theorem ssize_keys sm m l : srep sm m -> keys_of l m -> ssize sm = N.of_nat (length l).
Proof.
  intros R K. unfold ssize. f_equal. rewrite <- (map_length fst sm).
  apply (keys_of_length _ _ m); [apply srep_keys; exact R|exact K].
Qed.

Lemma ssize_sset_absent k v sm : sfind k sm = None -> ssize (sset k v sm) = ssize sm + 1.
Proof.
  intro H. unfold ssize, sset. cbn [length]. rewrite (sremove_absent _ _ H). lia.
Qed.

Lemma ssize_sset_present k v v0 sm :
  NoDup (map fst sm) -> sfind k sm = Some v0 -> ssize (sset k v sm) = ssize sm.
Proof.
  intros Hnd H. unfold ssize, sset. cbn [length]. rewrite (sremove_length_present _ _ _ Hnd H). reflexivity.
Qed.

Lemma ssize_sremove_present k v0 sm :
  NoDup (map fst sm) -> sfind k sm = Some v0 -> ssize (sremove k sm) + 1 = ssize sm.
Proof.
  intros Hnd H. unfold ssize. rewrite <- (sremove_length_present _ _ _ Hnd H). lia.
Qed.

Example srep_ex :
  let sm := sset 3 7%Z (sset 5 1%Z (sset 3 2%Z [])) in
  sm = [(3, 7%Z); (5, 1%Z)] /\ ssize sm = 2 /\ sfind 3 sm = Some 7%Z /\ srep sm (amap_of sm).
Proof.
  cbv zeta. split; [reflexivity|]. split; [reflexivity|]. split; [reflexivity|].
  apply srep_amap_of. repeat apply sset_nodup. constructor.
Qed.

(* ================================================================== 2. the acceptor's equality on outputs *)

(* [rv_eqb] identifies [RNat n] with [RInt (Z.of_N n)] (the harness parses every bare number as
   RInt) and is otherwise syntactic equality: it is equality of normal forms *)
Definition norm_rv (x : rv) : rv := match x with RNat n => RInt (Z.of_N n) | _ => x end.
Definition norm_out (r : out) : out := map norm_rv r.
Definition no_nat (r : out) : bool := forallb (fun x => match x with RNat _ => false | _ => true end) r.

Lemma bool_eqb_iff a b : Bool.eqb a b = true <-> a = b.
Proof. destruct a, b; cbn; split; intro H; try reflexivity; discriminate. Qed.

Lemma rv_eqb_norm a b : rv_eqb a b = true <-> norm_rv a = norm_rv b.
Proof.
  destruct a as [x|x|x| |x1 x2|x|x1 x2|x1 x2], b as [y|y|y| |y1 y2|y|y1 y2|y1 y2];
    cbn [rv_eqb norm_rv]; try (split; intro H; discriminate H).
  - rewrite bool_eqb_iff. split; [intros ->; reflexivity|intro H; injection H as ->; reflexivity].
  - rewrite N.eqb_eq. split; [intros ->; reflexivity|intro H; injection H as H; apply N2Z.inj; exact H].
  - rewrite Z.eqb_eq. split; [intros ->; reflexivity|intro H; injection H as ->; reflexivity].
  - rewrite Z.eqb_eq. split; [intros ->; reflexivity|intro H; injection H as ->; reflexivity].
  - rewrite Z.eqb_eq. split; [intros ->; reflexivity|intro H; injection H as ->; reflexivity].
  - split; reflexivity.
  - rewrite andb_true_iff, !N.eqb_eq. split; [intros [-> ->]; reflexivity|intro H; injection H as -> ->; split; reflexivity].
  - destruct x, y; split; intro H; try reflexivity; discriminate H.
  - rewrite andb_true_iff, Z.eqb_eq, bool_eqb_iff.
    split; [intros [-> ->]; reflexivity|intro H; injection H as -> ->; split; reflexivity].
  - rewrite andb_true_iff, N.eqb_eq, Z.eqb_eq.
    split; [intros [-> ->]; reflexivity|intro H; injection H as -> ->; split; reflexivity].
Qed.

Lemma out_eqb_norm a b : out_eqb a b = true <-> norm_out a = norm_out b.
Proof.
  revert b. induction a as [|x r IH]; intros [|y s]; cbn [out_eqb norm_out map];
    try (split; intro H; [reflexivity || discriminate H|reflexivity || discriminate H]).
  rewrite andb_true_iff, rv_eqb_norm, IH. unfold norm_out.
  split; [intros [-> ->]; reflexivity|intro H; injection H as -> ->; split; reflexivity].
Qed.

Lemma norm_out_idem r : norm_out (norm_out r) = norm_out r.
Proof.
  unfold norm_out. rewrite map_map. apply map_ext. intros [ | | | | | | | ]; reflexivity.
Qed.

Lemma no_nat_norm r : no_nat r = true -> norm_out r = r.
Proof.
  induction r as [|x r IH]; cbn [no_nat forallb norm_out map]; [reflexivity|].
  rewrite andb_true_iff. intros [H1 H2]. fold (no_nat r) in H2. fold (norm_out r). rewrite (IH H2).
  destruct x; try reflexivity. discriminate H1.
Qed.

Lemma out_eqb_refl r : out_eqb r r = true.
Proof. apply out_eqb_norm. reflexivity. Qed.

Lemma out_eqb_true r e : out_eqb r e = true -> norm_out e = e -> norm_out r = e.
Proof. intros H He. apply out_eqb_norm in H. rewrite H. exact He. Qed.

Lemma out_eqb_false r e : out_eqb r e = false -> norm_out e = e -> norm_out r <> e.
Proof.
  intros H He E. assert (X : out_eqb r e = true) by (apply out_eqb_norm; rewrite E, He; reflexivity).
  congruence.
Qed.

Lemma out_eqb_of_norm r e : norm_out r = e -> out_eqb r e = true.
Proof. intros <-. apply out_eqb_norm. symmetry. apply norm_out_idem. Qed.

Lemma is_exn_iff r e : is_exn r e = true <-> norm_out r = [RExn e].
Proof.
  unfold is_exn. rewrite out_eqb_norm. reflexivity.
Qed.

Lemma is_exn_false r e : is_exn r e = false <-> norm_out r <> [RExn e].
Proof.
  rewrite <- is_exn_iff. destruct (is_exn r e); split; intro H; try reflexivity; try discriminate.
  exfalso. apply H. reflexivity.
Qed.

(* ================================================================== 3. soundness of acceptance *)

Lemma nth_set_nth_same {A} (l : list A) a x d : (a < length l)%nat -> nth a (set_nth a x l) d = x.
Proof.
  revert a. induction l as [|y l IH]; intros [|a] H; cbn [length] in H; try lia; cbn [set_nth nth]; [reflexivity|].
  apply IH. lia.
Qed.

Lemma nth_some_lt {A} (l : list (option A)) a x : nth a l None = Some x -> (a < length l)%nat.
Proof.
  intro H. destruct (Nat.lt_ge_cases a (length l)) as [L|L]; [exact L|].
  rewrite (nth_overflow l None L) in H. discriminate.
Qed.

Section Sound.
Variable c : config.
Variable fapply : fnk -> Z -> bool -> Z * bool.
Variable spb_ : N.
Notation judge := (judge_op fapply spb_).
Notation op_spec := (op_spec c fapply).

(* what every accepted judgement leaves behind for table [a]: still present, same activity flag,
   contents known, and an association list representing [m'] *)
Definition post_ok (s' : sst) (a : nat) (t : stab) (m' : amap) : Prop :=
  exists t', get_st s' a = Some t' /\ st_act t' = st_act t /\ st_moved t' = false /\ srep (st_m t') m'.

Lemma post_ok_same s a t m :
  get_st s a = Some t -> st_moved t = false -> srep (st_m t) m -> post_ok s a t m.
Proof. intros Hg Hmv R. exists t. repeat split; try assumption; apply R. Qed.

Lemma post_ok_inval s a t m : post_ok s a t m -> post_ok (inval s) a t m.
Proof. intro H. exact H. Qed.

Lemma post_ok_put s a t sm m' :
  get_st s a = Some t -> srep sm m' -> post_ok (inval (put_m s a t sm)) a t m'.
Proof.
  intros Hg R. eexists. split.
  - unfold get_st, inval, put_m, put_st. cbn [s_tabs]. apply nth_set_nth_same.
    apply (nth_some_lt _ _ _ Hg).
  - cbn [st_act st_moved st_m]. repeat split; try reflexivity; apply R.
Qed.

Lemma post_ok_meq s a t m m' : post_ok s a t m -> meq m m' -> post_ok s a t m'.
Proof.
  intros [t' [H1 [H2 [H3 H4]]]] E. exists t'. repeat split; try assumption; apply (srep_meq _ _ _ H4 E).
Qed.

Ltac jred Hj Hg Hun Hmv :=
  unfold judge_op in Hj; rewrite Hg, Hun, Hmv in Hj; cbv beta iota zeta in Hj; cbn [andb] in Hj;
  unfold ok, blame in Hj.

(* ---- the lookup family and clear: acceptance implies [op_spec] itself (no table needed) *)

Lemma sound_OFind tb s a t m k r pre post s' :
  get_st s a = Some t -> st_moved t = false -> srep (st_m t) m -> is_exn r EUnmodelled = false ->
  judge s a (OFind k) r pre post = (s', []) ->
  exists m', post_ok s' a t m' /\ op_spec tb m (OFind k) (norm_out r) m'.
Proof.
  intros Hg Hmv R Hun Hj. jred Hj Hg Hun Hmv.
  destruct (out_eqb r _) eqn:E; [|discriminate Hj]. injection Hj as <-.
  exists m. split; [apply post_ok_same; assumption|]. cbn [LazyRefine.op_spec].
  split; [intro; reflexivity|]. rewrite (proj2 R k) in E.
  apply (out_eqb_true _ _ E). destruct (m k); reflexivity.
Qed.

Lemma sound_OFindThrow tb s a t m k r pre post s' :
  get_st s a = Some t -> st_moved t = false -> srep (st_m t) m -> is_exn r EUnmodelled = false ->
  judge s a (OFindThrow k) r pre post = (s', []) ->
  exists m', post_ok s' a t m' /\ op_spec tb m (OFindThrow k) (norm_out r) m'.
Proof.
  intros Hg Hmv R Hun Hj. jred Hj Hg Hun Hmv.
  destruct (out_eqb r _) eqn:E; [|discriminate Hj]. injection Hj as <-.
  exists m. split; [apply post_ok_same; assumption|]. cbn [LazyRefine.op_spec].
  split; [intro; reflexivity|]. rewrite (proj2 R k) in E.
  apply (out_eqb_true _ _ E). destruct (m k); reflexivity.
Qed.

Lemma sound_OContains tb s a t m k r pre post s' :
  get_st s a = Some t -> st_moved t = false -> srep (st_m t) m -> is_exn r EUnmodelled = false ->
  judge s a (OContains k) r pre post = (s', []) ->
  exists m', post_ok s' a t m' /\ op_spec tb m (OContains k) (norm_out r) m'.
Proof.
  intros Hg Hmv R Hun Hj. jred Hj Hg Hun Hmv.
  destruct (out_eqb r _) eqn:E; [|discriminate Hj]. injection Hj as <-.
  exists m. split; [apply post_ok_same; assumption|]. cbn [LazyRefine.op_spec].
  split; [intro; reflexivity|]. rewrite (proj2 R k) in E.
  apply (out_eqb_true _ _ E). reflexivity.
Qed.

Lemma sound_OFindFn tb s a t m k r pre post s' :
  get_st s a = Some t -> st_moved t = false -> srep (st_m t) m -> is_exn r EUnmodelled = false ->
  judge s a (OFindFn k) r pre post = (s', []) ->
  exists m', post_ok s' a t m' /\ op_spec tb m (OFindFn k) (norm_out r) m'.
Proof.
  intros Hg Hmv R Hun Hj. jred Hj Hg Hun Hmv.
  destruct (out_eqb r _) eqn:E; [|discriminate Hj]. injection Hj as <-.
  exists m. split; [apply post_ok_same; assumption|]. cbn [LazyRefine.op_spec].
  split; [intro; reflexivity|]. rewrite (proj2 R k) in E.
  apply (out_eqb_true _ _ E). destruct (m k); reflexivity.
Qed.

Lemma sound_OUpdate tb s a t m k v r pre post s' :
  get_st s a = Some t -> st_moved t = false -> srep (st_m t) m -> is_exn r EUnmodelled = false ->
  judge s a (OUpdate k v) r pre post = (s', []) ->
  exists m', post_ok s' a t m' /\ op_spec tb m (OUpdate k v) (norm_out r) m'.
Proof.
  intros Hg Hmv R Hun Hj. jred Hj Hg Hun Hmv. assert (Hf := proj2 R k).
  destruct (sfind k (st_m t)) as [v0|] eqn:Ef.
  - destruct (out_eqb r _) eqn:E; [|discriminate Hj]. injection Hj as <-.
    exists (mset m k (Some v)). split; [apply post_ok_put; [assumption|apply srep_sset; exact R]|].
    cbn [LazyRefine.op_spec]. unfold lk_new. rewrite <- Hf. cbn [fst snd].
    split; [intro; reflexivity|]. apply (out_eqb_true _ _ E). reflexivity.
  - destruct (out_eqb r _) eqn:E; [|discriminate Hj]. injection Hj as <-.
    exists m. split; [apply post_ok_same; assumption|].
    cbn [LazyRefine.op_spec]. unfold lk_new. rewrite <- Hf.
    split; [intro; reflexivity|]. apply (out_eqb_true _ _ E). reflexivity.
Qed.

Lemma sound_OUpdateFn tb s a t m k f r pre post s' :
  get_st s a = Some t -> st_moved t = false -> srep (st_m t) m -> is_exn r EUnmodelled = false ->
  judge s a (OUpdateFn k f) r pre post = (s', []) ->
  exists m', post_ok s' a t m' /\ op_spec tb m (OUpdateFn k f) (norm_out r) m'.
Proof.
  intros Hg Hmv R Hun Hj. jred Hj Hg Hun Hmv. assert (Hf := proj2 R k).
  destruct (sfind k (st_m t)) as [v0|] eqn:Ef.
  - destruct (out_eqb r _) eqn:E; [|discriminate Hj]. injection Hj as <-.
    exists (mset m k (Some (fst (fapply f v0 false)))).
    split; [apply post_ok_put; [assumption|apply srep_sset; exact R]|].
    cbn [LazyRefine.op_spec]. unfold lk_new. rewrite <- Hf. cbn [fst snd].
    split; [intro; reflexivity|]. apply (out_eqb_true _ _ E). reflexivity.
  - destruct (out_eqb r _) eqn:E; [|discriminate Hj]. injection Hj as <-.
    exists m. split; [apply post_ok_same; assumption|].
    cbn [LazyRefine.op_spec]. unfold lk_new. rewrite <- Hf.
    split; [intro; reflexivity|]. apply (out_eqb_true _ _ E). reflexivity.
Qed.

Lemma sound_OErase tb s a t m k r pre post s' :
  get_st s a = Some t -> st_moved t = false -> srep (st_m t) m -> is_exn r EUnmodelled = false ->
  judge s a (OErase k) r pre post = (s', []) ->
  exists m', post_ok s' a t m' /\ op_spec tb m (OErase k) (norm_out r) m'.
Proof.
  intros Hg Hmv R Hun Hj. jred Hj Hg Hun Hmv. assert (Hf := proj2 R k).
  destruct (sfind k (st_m t)) as [v0|] eqn:Ef.
  - destruct (out_eqb r _) eqn:E; [|discriminate Hj]. injection Hj as <-.
    exists (mset m k None). split; [apply post_ok_put; [assumption|apply srep_sremove; exact R]|].
    cbn [LazyRefine.op_spec]. unfold lk_new. rewrite <- Hf. cbn [fst snd].
    split; [intro; reflexivity|]. apply (out_eqb_true _ _ E). reflexivity.
  - destruct (out_eqb r _) eqn:E; [|discriminate Hj]. injection Hj as <-.
    exists m. split; [apply post_ok_same; assumption|].
    cbn [LazyRefine.op_spec]. unfold lk_new. rewrite <- Hf.
    split; [intro; reflexivity|]. apply (out_eqb_true _ _ E). reflexivity.
Qed.

Lemma sound_OEraseFn tb s a t m k f r pre post s' :
  get_st s a = Some t -> st_moved t = false -> srep (st_m t) m -> is_exn r EUnmodelled = false ->
  judge s a (OEraseFn k f) r pre post = (s', []) ->
  exists m', post_ok s' a t m' /\ op_spec tb m (OEraseFn k f) (norm_out r) m'.
Proof.
  intros Hg Hmv R Hun Hj. jred Hj Hg Hun Hmv. assert (Hf := proj2 R k).
  destruct (sfind k (st_m t)) as [v0|] eqn:Ef.
  - destruct (fapply f v0 false) as [v' er] eqn:Ea.
    destruct (out_eqb r _) eqn:E; [|discriminate Hj]. injection Hj as <-.
    exists (mset m k (if er then None else Some v')). split.
    + apply post_ok_put; [assumption|]. destruct er; [apply srep_sremove|apply srep_sset]; exact R.
    + cbn [LazyRefine.op_spec]. unfold lk_new. rewrite <- Hf, Ea. cbn [fst snd].
      split; [intro; reflexivity|]. apply (out_eqb_true _ _ E). reflexivity.
  - destruct (out_eqb r _) eqn:E; [|discriminate Hj]. injection Hj as <-.
    exists m. split; [apply post_ok_same; assumption|].
    cbn [LazyRefine.op_spec]. unfold lk_new. rewrite <- Hf.
    split; [intro; reflexivity|]. apply (out_eqb_true _ _ E). reflexivity.
Qed.

Lemma sound_OClear tb s a t m r pre post s' :
  get_st s a = Some t -> st_moved t = false -> srep (st_m t) m -> is_exn r EUnmodelled = false ->
  judge s a OClear r pre post = (s', []) ->
  exists m', post_ok s' a t m' /\ op_spec tb m OClear (norm_out r) m'.
Proof.
  intros Hg Hmv R Hun Hj. jred Hj Hg Hun Hmv.
  destruct (out_eqb r _) eqn:E; [|discriminate Hj]. injection Hj as <-.
  exists mempty. split; [apply post_ok_put; [assumption|apply srep_nil]|].
  cbn [LazyRefine.op_spec]. split; [intro; reflexivity|]. apply (out_eqb_true _ _ E). reflexivity.
Qed.

(* ---- the insert family, rehash, reserve *)

(* the part of the pre-observation the exception side conditions of [ins_spec]/[resize_spec]
   depend on ([exn_ok0] reads the configured maximum hashpower and whether a minimum load factor is
   set; the dump prints the minimum load factor as a REDUCED fraction, hence the iff) *)
Definition obs_pre (tb : table) (pre : obs) : Prop :=
  o_hp pre = bhp (cur tb) /\ o_mhp pre = mhp tb /\ (o_mlfn pre = 0 <-> mlfn tb = 0).

(* the exception disjunct of [ins_spec] *)
Definition ins_exn (tb : table) (m : amap) (r : out) (m' : amap) : Prop :=
  exists e, r = [RExn e] /\ meq m' m /\ exn_ok0 true tb e.

Definition lookup_or_clear (o : op) : bool :=
  match o with
  | OFind _ | OFindThrow _ | OContains _ | OFindFn _ | OUpdate _ _ | OUpdateFn _ _
  | OErase _ | OEraseFn _ _ | OClear => true
  | _ => false
  end.

(* the hashpower a reserve request asks for depends on the slots per bucket only: the acceptor
   (which knows [spb_] but no [config]) computes the same target as [op_spec] *)
Lemma reserve_calc_spb_only c1 c2 n : spb c1 = spb c2 -> reserve_calc c1 n = reserve_calc c2 n.
Proof. intro H. unfold reserve_calc. rewrite H. reflexivity. Qed.

Definition cfg_of_spb (x : N) : config :=
  {| spb := x; lbits := 0; simple := true; nothrow := true; destructive := false |}.

Lemma reserve_calc_cfg_of_spb n : spb c = spb_ -> reserve_calc (cfg_of_spb spb_) n = reserve_calc c n.
Proof. intro H. apply reserve_calc_spb_only. cbn [cfg_of_spb spb]. symmetry. exact H. Qed.

Lemma maxhp_allowed_pre pre post req : maxhp_allowed pre post req = true -> o_mhp pre <> NO_MAXIMUM_HASHPOWER.
Proof.
  unfold maxhp_allowed. rewrite andb_true_iff, negb_true_iff, N.eqb_neq. intros [H _]. exact H.
Qed.

Lemma lf_allowed_pre pre : lf_allowed pre = true <-> o_mlfn pre <> 0 /\ o_mlfd pre <> 0.
Proof.
  unfold lf_allowed. rewrite andb_true_iff, !negb_true_iff, !N.eqb_neq. reflexivity.
Qed.

(* the outcomes of [judge_insertish] that blame nothing: the expected result, or a policy
   exception on an ABSENT key *)
Lemma insertish_sound present s a t pre post r exp sm' cl s' :
  judge_insertish spb_ present s a t pre post r exp sm' cl = (s', []) ->
  grew_below_minimum spb_ pre post = false /\
  ((norm_out r = norm_out exp /\ s' = inval (put_m s a t sm')) \/
   (present = false /\
    ((s' = inval s /\ norm_out r = [RExn EMaxHashpower] /\ maxhp_allowed pre post None = true) \/
     (s' = inval s /\ norm_out r = [RExn ELoadFactorTooLow] /\ lf_allowed pre = true /\
      lf_below spb_ pre post = true)))).
Proof.
  unfold judge_insertish, ok, blame. intro Hj.
  destruct (grew_below_minimum spb_ pre post).
  { destruct (out_eqb r exp); discriminate Hj. }
  split; [reflexivity|].
  destruct (out_eqb r exp) eqn:E.
  { injection Hj as <-. left. split; [apply out_eqb_norm; exact E|reflexivity]. }
  destruct (is_exn r EMaxHashpower) eqn:E1.
  { destruct present; cbn [negb andb] in Hj; [discriminate Hj|].
    destruct (maxhp_allowed pre post None) eqn:E2; [|discriminate Hj]. injection Hj as <-.
    right. split; [reflexivity|]. left. split; [reflexivity|]. split; [apply is_exn_iff; exact E1|reflexivity]. }
  destruct (is_exn r ELoadFactorTooLow) eqn:E2; [|discriminate Hj].
  destruct present; cbn [negb andb] in Hj; [discriminate Hj|].
  destruct (lf_allowed pre) eqn:E3; [|discriminate Hj]. cbn [andb] in Hj.
  destruct (lf_below spb_ pre post) eqn:E4; [|discriminate Hj]. injection Hj as <-.
  right. split; [reflexivity|]. right. split; [reflexivity|]. split; [apply is_exn_iff; exact E2|].
  split; reflexivity.
Qed.

(* an accepted policy exception satisfies the side condition of the spec *)
Lemma accepted_exn_ok tb m s a t pre post r s' :
  obs_pre tb pre -> get_st s a = Some t -> st_moved t = false -> srep (st_m t) m ->
  (s' = inval s /\ norm_out r = [RExn EMaxHashpower] /\ maxhp_allowed pre post None = true) \/
  (s' = inval s /\ norm_out r = [RExn ELoadFactorTooLow] /\ lf_allowed pre = true /\
   lf_below spb_ pre post = true) ->
  post_ok s' a t m /\ ins_exn tb m (norm_out r) m.
Proof.
  intros [_ [Hm Hl]] Hg Hmv R [[-> [Hr Ha]]|[-> [Hr [Ha _]]]].
  - split; [apply post_ok_inval, post_ok_same; assumption|]. exists EMaxHashpower.
    split; [exact Hr|]. split; [intro; reflexivity|]. left. split; [reflexivity|].
    rewrite <- Hm. apply (maxhp_allowed_pre _ _ _ Ha).
  - split; [apply post_ok_inval, post_ok_same; assumption|]. exists ELoadFactorTooLow.
    split; [exact Hr|]. split; [intro; reflexivity|]. right. left. split; [reflexivity|]. split; [reflexivity|].
    apply lf_allowed_pre in Ha. intro H. apply (proj1 Ha). apply Hl. exact H.
Qed.

Lemma meq_mset_self (m : amap) k o : m k = o -> meq m (mset m k o).
Proof. intros <- k'. unfold mset. destruct (N.eqb_spec k' k) as [->|_]; reflexivity. Qed.

Lemma sound_insertish_gen tb g k v (full : bool) m present s a t pre post r exp sm' cl s' mm :
  obs_pre tb pre -> get_st s a = Some t -> st_moved t = false -> srep (st_m t) m ->
  judge_insertish spb_ present s a t pre post r exp sm' cl = (s', []) ->
  present = is_some (m k) ->
  norm_out exp = exp -> srep sm' mm ->
  match m k with
  | Some v0 => meq mm (mset m k (final_of g v0 false)) /\
               exp = RBool false :: (if full then log_of g v0 false else [])
  | None => meq mm (mset m k (final_of g v true)) /\
            exp = RBool true :: (if full then log_of g v true else [])
  end ->
  exists m', post_ok s' a t m' /\ ins_spec tb g k v full m (norm_out r) m'.
Proof.
  intros Hpre Hg Hmv R Hj Hp Hexp R' Hcase.
  destruct (insertish_sound _ _ _ _ _ _ _ _ _ _ _ Hj) as [_ [[Hr ->]|[Hpf Hx]]].
  - exists mm. split; [apply post_ok_put; assumption|]. unfold ins_spec. rewrite Hr, Hexp.
    destruct (m k) as [v0|]; [exact Hcase|right; exact Hcase].
  - destruct (accepted_exn_ok tb m s a t pre post r s' Hpre Hg Hmv R Hx) as [P X].
    exists m. split; [exact P|]. unfold ins_spec. destruct (m k) as [v0|] eqn:Emk.
    + rewrite Hpf in Hp. discriminate Hp.
    + left. exact X.
Qed.

Lemma sound_OInsert tb s a t m k v r pre post s' :
  obs_pre tb pre ->
  get_st s a = Some t -> st_moved t = false -> srep (st_m t) m -> is_exn r EUnmodelled = false ->
  judge s a (OInsert k v) r pre post = (s', []) ->
  exists m', post_ok s' a t m' /\ op_spec tb m (OInsert k v) (norm_out r) m'.
Proof.
  intros Hpre Hg Hmv R Hun Hj. jred Hj Hg Hun Hmv. assert (Hf := proj2 R k).
  cbn [LazyRefine.op_spec].
  destruct (sfind k (st_m t)) as [v0|] eqn:Ef.
  - eapply (sound_insertish_gen tb _ k v false m _ _ _ _ _ _ _ _ _ _ _ m Hpre Hg Hmv R Hj);
      [rewrite <- Hf; reflexivity|reflexivity|exact R|].
    rewrite <- Hf. split; [|reflexivity]. apply meq_mset_self. symmetry. exact Hf.
  - eapply (sound_insertish_gen tb _ k v false m _ _ _ _ _ _ _ _ _ _ _ _ Hpre Hg Hmv R Hj);
      [rewrite <- Hf; reflexivity|reflexivity|apply srep_sset; exact R|].
    rewrite <- Hf. split; [intro; reflexivity|reflexivity].
Qed.

Lemma sound_OIoa tb s a t m k v r pre post s' :
  obs_pre tb pre ->
  get_st s a = Some t -> st_moved t = false -> srep (st_m t) m -> is_exn r EUnmodelled = false ->
  judge s a (OIoa k v) r pre post = (s', []) ->
  exists m', post_ok s' a t m' /\ op_spec tb m (OIoa k v) (norm_out r) m'.
Proof.
  intros Hpre Hg Hmv R Hun Hj. jred Hj Hg Hun Hmv. assert (Hf := proj2 R k).
  cbn [LazyRefine.op_spec].
  destruct (sfind k (st_m t)) as [v0|] eqn:Ef.
  - eapply (sound_insertish_gen tb _ k v false m _ _ _ _ _ _ _ _ _ _ _ _ Hpre Hg Hmv R Hj);
      [rewrite <- Hf; reflexivity|reflexivity|apply srep_sset; exact R|].
    rewrite <- Hf. split; [intro; reflexivity|reflexivity].
  - eapply (sound_insertish_gen tb _ k v false m _ _ _ _ _ _ _ _ _ _ _ _ Hpre Hg Hmv R Hj);
      [rewrite <- Hf; reflexivity|reflexivity|apply srep_sset; exact R|].
    rewrite <- Hf. split; [intro; reflexivity|reflexivity].
Qed.

Lemma sound_OUpsert tb s a t m k f two v r pre post s' :
  obs_pre tb pre ->
  get_st s a = Some t -> st_moved t = false -> srep (st_m t) m -> is_exn r EUnmodelled = false ->
  judge s a (OUpsert k f two v) r pre post = (s', []) ->
  exists m', post_ok s' a t m' /\ op_spec tb m (OUpsert k f two v) (norm_out r) m'.
Proof.
  intros Hpre Hg Hmv R Hun Hj. jred Hj Hg Hun Hmv. assert (Hf := proj2 R k).
  cbn [LazyRefine.op_spec].
  destruct (sfind k (st_m t)) as [v0|] eqn:Ef; [|destruct two].
  - eapply (sound_insertish_gen tb _ k v true m _ _ _ _ _ _ _ _ _ _ _ _ Hpre Hg Hmv R Hj);
      [rewrite <- Hf; reflexivity|reflexivity|apply srep_sset; exact R|].
    rewrite <- Hf. unfold final_of, log_of, invoke. rewrite andb_false_r.
    destruct (fapply f v0 false) as [v' er]. cbn [fst andb]. split; [intro; reflexivity|reflexivity].
  - eapply (sound_insertish_gen tb _ k v true m _ _ _ _ _ _ _ _ _ _ _ _ Hpre Hg Hmv R Hj);
      [rewrite <- Hf; reflexivity|reflexivity|apply srep_sset; exact R|].
    rewrite <- Hf. unfold final_of, log_of, invoke. cbn [negb andb].
    destruct (fapply f v true) as [v' er]. cbn [fst]. split; [intro; reflexivity|reflexivity].
  - eapply (sound_insertish_gen tb _ k v true m _ _ _ _ _ _ _ _ _ _ _ _ Hpre Hg Hmv R Hj);
      [rewrite <- Hf; reflexivity|reflexivity|apply srep_sset; exact R|].
    rewrite <- Hf. unfold final_of, log_of, invoke. cbn [negb andb].
    split; [intro; reflexivity|reflexivity].
Qed.

Lemma sound_OUprase tb s a t m k f two v r pre post s' :
  obs_pre tb pre ->
  get_st s a = Some t -> st_moved t = false -> srep (st_m t) m -> is_exn r EUnmodelled = false ->
  judge s a (OUprase k f two v) r pre post = (s', []) ->
  exists m', post_ok s' a t m' /\ op_spec tb m (OUprase k f two v) (norm_out r) m'.
Proof.
  intros Hpre Hg Hmv R Hun Hj. jred Hj Hg Hun Hmv. assert (Hf := proj2 R k).
  cbn [LazyRefine.op_spec].
  destruct (sfind k (st_m t)) as [v0|] eqn:Ef; [|destruct two].
  - destruct (fapply f v0 false) as [v' er] eqn:Ea.
    eapply (sound_insertish_gen tb _ k v true m _ _ _ _ _ _ _ _ _ _ _
             (mset m k (if er then None else Some v')) Hpre Hg Hmv R Hj);
      [rewrite <- Hf; reflexivity|reflexivity| |].
    + destruct er; [apply srep_sremove|apply srep_sset]; exact R.
    + rewrite <- Hf. unfold final_of, log_of, invoke. rewrite andb_false_r, Ea. cbn [andb].
      destruct er; (split; [intro; reflexivity|reflexivity]).
  - destruct (fapply f v true) as [v' er] eqn:Ea.
    eapply (sound_insertish_gen tb _ k v true m _ _ _ _ _ _ _ _ _ _ _
             (mset m k (if er then None else Some v')) Hpre Hg Hmv R Hj);
      [rewrite <- Hf; reflexivity|reflexivity| |].
    + destruct er; [|apply srep_sset; exact R].
      apply (srep_meq _ m); [exact R|]. apply meq_mset_self. symmetry. exact Hf.
    + rewrite <- Hf. unfold final_of, log_of, invoke. cbn [negb andb]. rewrite Ea. cbn [andb].
      destruct er; (split; [intro; reflexivity|reflexivity]).
  - eapply (sound_insertish_gen tb _ k v true m _ _ _ _ _ _ _ _ _ _ _ _ Hpre Hg Hmv R Hj);
      [rewrite <- Hf; reflexivity|reflexivity|apply srep_sset; exact R|].
    rewrite <- Hf. unfold final_of, log_of, invoke. cbn [negb andb].
    split; [intro; reflexivity|reflexivity].
Qed.

Lemma sound_ORehash tb s a t m n r pre post s' :
  obs_pre tb pre ->
  get_st s a = Some t -> st_moved t = false -> srep (st_m t) m -> is_exn r EUnmodelled = false ->
  judge s a (ORehash n) r pre post = (s', []) ->
  exists m', post_ok s' a t m' /\ op_spec tb m (ORehash n) (norm_out r) m'.
Proof.
  intros [Hhp [Hm _]] Hg Hmv R Hun Hj. jred Hj Hg Hun Hmv. cbn [LazyRefine.op_spec]. unfold resize_spec.
  exists m.
  destruct (is_exn r EMaxHashpower) eqn:E1.
  { destruct (negb (o_mhp pre =? NO_MAXIMUM_HASHPOWER) && negb (n =? o_hp pre)) eqn:E2; [|discriminate Hj].
    injection Hj as <-. apply andb_true_iff in E2. destruct E2 as [E2 E3].
    split; [apply post_ok_inval, post_ok_same; assumption|]. split; [intro; reflexivity|].
    right. exists EMaxHashpower. split; [apply is_exn_iff; exact E1|].
    split; [rewrite <- Hhp; apply N.eqb_neq; apply negb_true_iff; exact E3|].
    split; [|discriminate]. left. split; [reflexivity|].
    rewrite <- Hm. apply N.eqb_neq. apply negb_true_iff. exact E2. }
  destruct (is_exn r ELoadFactorTooLow); [discriminate Hj|].
  destruct (out_eqb r _ && _) eqn:E3; [|discriminate Hj]. injection Hj as <-.
  apply andb_true_iff in E3. destruct E3 as [E3 _].
  split; [apply post_ok_inval, post_ok_same; assumption|]. split; [intro; reflexivity|].
  left. exists (negb (n =? o_hp pre)). split; [apply (out_eqb_true _ _ E3); reflexivity|].
  rewrite negb_false_iff, N.eqb_eq, Hhp. reflexivity.
Qed.

Lemma sound_OReserve tb s a t m n r pre post s' :
  spb c = spb_ -> obs_pre tb pre ->
  get_st s a = Some t -> st_moved t = false -> srep (st_m t) m -> is_exn r EUnmodelled = false ->
  judge s a (OReserve n) r pre post = (s', []) ->
  exists m', post_ok s' a t m' /\ op_spec tb m (OReserve n) (norm_out r) m'.
Proof.
  intros Hspb [Hhp [Hm _]] Hg Hmv R Hun Hj. jred Hj Hg Hun Hmv. cbn [LazyRefine.op_spec]. unfold resize_spec.
  fold (cfg_of_spb spb_) in Hj. rewrite (reserve_calc_cfg_of_spb n Hspb) in Hj.
  exists m.
  destruct (is_exn r EMaxHashpower) eqn:E1.
  { destruct (negb (o_mhp pre =? NO_MAXIMUM_HASHPOWER) && negb (reserve_calc c n =? o_hp pre)) eqn:E2;
      [|discriminate Hj].
    injection Hj as <-. apply andb_true_iff in E2. destruct E2 as [E2 E3].
    split; [apply post_ok_inval, post_ok_same; assumption|]. split; [intro; reflexivity|].
    right. exists EMaxHashpower. split; [apply is_exn_iff; exact E1|].
    split; [rewrite <- Hhp; apply N.eqb_neq; apply negb_true_iff; exact E3|].
    split; [|discriminate]. left. split; [reflexivity|].
    rewrite <- Hm. apply N.eqb_neq. apply negb_true_iff. exact E2. }
  destruct (is_exn r ELoadFactorTooLow); [discriminate Hj|].
  destruct (out_eqb r _ && _) eqn:E3; [|discriminate Hj]. injection Hj as <-.
  apply andb_true_iff in E3. destruct E3 as [E3 _].
  split; [apply post_ok_inval, post_ok_same; assumption|]. split; [intro; reflexivity|].
  left. exists (negb (reserve_calc c n =? o_hp pre)). split; [apply (out_eqb_true _ _ E3); reflexivity|].
  rewrite negb_false_iff, N.eqb_eq, Hhp. reflexivity.
Qed.

(* ---- THE PACKAGED SOUNDNESS STATEMENT, against [op_spec] ITSELF.  [tb] is the table the
   exception side conditions of [op_spec] are read from; it enters only through [obs_pre tb pre]
   (for the lookup family and clear it is irrelevant, see [judge_sound_lookup]).  [spb c = spb_]:
   the acceptor was given the slots per bucket of the configuration (used by reserve only).  The
   hypothesis [is_exn r EUnmodelled = false] is necessary: the acceptor passes every output
   "exc:<unknown name>" unjudged. *)
Theorem judge_sound tb s a t m o r pre post s' :
  normal_op o = true -> spb c = spb_ -> obs_pre tb pre ->
  get_st s a = Some t -> st_moved t = false -> srep (st_m t) m -> is_exn r EUnmodelled = false ->
  judge s a o r pre post = (s', []) ->
  exists m', post_ok s' a t m' /\ op_spec tb m o (norm_out r) m'.
Proof.
  intros Hop Hspb Hpre Hg Hmv R Hun Hj. destruct o; try discriminate Hop.
  - exact (sound_OFind tb _ _ _ _ _ _ _ _ _ Hg Hmv R Hun Hj).
  - exact (sound_OFindThrow tb _ _ _ _ _ _ _ _ _ Hg Hmv R Hun Hj).
  - exact (sound_OContains tb _ _ _ _ _ _ _ _ _ Hg Hmv R Hun Hj).
  - exact (sound_OFindFn tb _ _ _ _ _ _ _ _ _ Hg Hmv R Hun Hj).
  - exact (sound_OUpdate tb _ _ _ _ _ _ _ _ _ _ Hg Hmv R Hun Hj).
  - exact (sound_OUpdateFn tb _ _ _ _ _ _ _ _ _ _ Hg Hmv R Hun Hj).
  - exact (sound_OInsert tb _ _ _ _ _ _ _ _ _ _ Hpre Hg Hmv R Hun Hj).
  - exact (sound_OIoa tb _ _ _ _ _ _ _ _ _ _ Hpre Hg Hmv R Hun Hj).
  - exact (sound_OUpsert tb _ _ _ _ _ _ _ _ _ _ _ _ Hpre Hg Hmv R Hun Hj).
  - exact (sound_OUprase tb _ _ _ _ _ _ _ _ _ _ _ _ Hpre Hg Hmv R Hun Hj).
  - exact (sound_OErase tb _ _ _ _ _ _ _ _ _ Hg Hmv R Hun Hj).
  - exact (sound_OEraseFn tb _ _ _ _ _ _ _ _ _ _ Hg Hmv R Hun Hj).
  - exact (sound_ORehash tb _ _ _ _ _ _ _ _ _ Hpre Hg Hmv R Hun Hj).
  - exact (sound_OReserve tb _ _ _ _ _ _ _ _ _ Hspb Hpre Hg Hmv R Hun Hj).
  - exact (sound_OClear tb _ _ _ _ _ _ _ _ Hg Hmv R Hun Hj).
Qed.

(* lookup family and clear: no assumption on the observations or the configuration *)
Theorem judge_sound_lookup tb s a t m o r pre post s' :
  lookup_or_clear o = true ->
  get_st s a = Some t -> st_moved t = false -> srep (st_m t) m -> is_exn r EUnmodelled = false ->
  judge s a o r pre post = (s', []) ->
  exists m', post_ok s' a t m' /\ op_spec tb m o (norm_out r) m'.
Proof.
  intros Hop Hg Hmv R Hun Hj. destruct o; try discriminate Hop.
  - exact (sound_OFind tb _ _ _ _ _ _ _ _ _ Hg Hmv R Hun Hj).
  - exact (sound_OFindThrow tb _ _ _ _ _ _ _ _ _ Hg Hmv R Hun Hj).
  - exact (sound_OContains tb _ _ _ _ _ _ _ _ _ Hg Hmv R Hun Hj).
  - exact (sound_OFindFn tb _ _ _ _ _ _ _ _ _ Hg Hmv R Hun Hj).
  - exact (sound_OUpdate tb _ _ _ _ _ _ _ _ _ _ Hg Hmv R Hun Hj).
  - exact (sound_OUpdateFn tb _ _ _ _ _ _ _ _ _ _ Hg Hmv R Hun Hj).
  - exact (sound_OErase tb _ _ _ _ _ _ _ _ _ Hg Hmv R Hun Hj).
  - exact (sound_OEraseFn tb _ _ _ _ _ _ _ _ _ _ Hg Hmv R Hun Hj).
  - exact (sound_OClear tb _ _ _ _ _ _ _ _ Hg Hmv R Hun Hj).
Qed.

(* what an accepted judgement of an insert-family call says about the observations, beyond
   [op_spec]: no doubling below the minimum load factor is visible; a maximum-hashpower exception
   left the table at the configured maximum; a load-factor exception was thrown with a well-formed
   non-zero minimum and the load factor (elements before the call over the capacity at the final
   hashpower) STRICTLY below it *)
Definition ins_family (o : op) : bool :=
  match o with OInsert _ _ | OIoa _ _ | OUpsert _ _ _ _ | OUprase _ _ _ _ => true | _ => false end.

Lemma insertish_obs present s a t pre post r b tl sm' cl s' :
  judge_insertish spb_ present s a t pre post r (RBool b :: tl) sm' cl = (s', []) ->
  grew_below_minimum spb_ pre post = false /\
  (norm_out r = [RExn EMaxHashpower] -> maxhp_allowed pre post None = true) /\
  (norm_out r = [RExn ELoadFactorTooLow] -> lf_allowed pre = true /\ lf_below spb_ pre post = true).
Proof.
  intro Hj. destruct (insertish_sound _ _ _ _ _ _ _ _ _ _ _ Hj) as [Hgr H]. split; [exact Hgr|].
  destruct H as [[Hr _]|[_ [[_ [Hr Ha]]|[_ [Hr Ha]]]]].
  - split; intro X; rewrite X in Hr; discriminate Hr.
  - split; intro X; [exact Ha|rewrite X in Hr; discriminate Hr].
  - split; intro X; [rewrite X in Hr; discriminate Hr|exact Ha].
Qed.

Theorem judge_sound_lf s a t o r pre post s' :
  ins_family o = true ->
  get_st s a = Some t -> st_moved t = false -> is_exn r EUnmodelled = false ->
  judge s a o r pre post = (s', []) ->
  grew_below_minimum spb_ pre post = false /\
  (norm_out r = [RExn EMaxHashpower] -> maxhp_allowed pre post None = true) /\
  (norm_out r = [RExn ELoadFactorTooLow] -> lf_allowed pre = true /\ lf_below spb_ pre post = true).
Proof.
  intros Hop Hg Hmv Hun Hj. destruct o; try discriminate Hop; jred Hj Hg Hun Hmv;
    destruct (sfind k (st_m t)) as [v0|];
    try destruct two;
    repeat match type of Hj with context [let '(_, _) := ?p in _] => destruct p end;
    exact (insertish_obs _ _ _ _ _ _ _ _ _ _ _ _ Hj).
Qed.

End Sound.

(* ================================================================== 4. completeness (no false alarm) *)

Lemma meq_sym (m m' : amap) : meq m m' -> meq m' m.
Proof. intros H k. symmetry. apply H. Qed.

Lemma meq_trans (m m' m'' : amap) : meq m m' -> meq m' m'' -> meq m m''.
Proof. intros H1 H2 k. rewrite H1. apply H2. Qed.

Section Complete.
Variable c : config.
Variable fapply : fnk -> Z -> bool -> Z * bool.
Variable spb_ : N.
Notation judge := (judge_op fapply spb_).
Notation op_spec := (op_spec c fapply).

Definition no_fuel (r : out) : Prop := norm_out r <> [RExn EOutOfFuel].

(* consistency of the observed statistics with the call, as far as [judge_op] reads them.
   (The statistics clauses proper - size, capacity, hashpower within the maximum - are checked by
   [judge_stats], see section 6.)  Lookup family and clear: [judge_op] reads no statistics.
   Insert family: the table is the one [pre] was read from, a minimum load factor is well formed,
   no automatic doubling below the minimum load factor is visible, a maximum-hashpower exception
   leaves the table AT the maximum, and the exception is not the model's fuel artefact.
   Rehash / reserve: a successful call leaves at least the requested hashpower / capacity (reserve:
   unless n + spb wraps in reserve_calc's 64-bit arithmetic, when the request is for a tiny table). *)
Definition obs_consistent (tb : table) (o : op) (r : out) (pre post : obs) : Prop :=
  match o with
  | OInsert _ _ | OIoa _ _ | OUpsert _ _ _ _ | OUprase _ _ _ _ =>
      obs_pre tb pre /\ o_mlfd pre <> 0 /\ grew_below_minimum spb_ pre post = false /\
      (norm_out r = [RExn EMaxHashpower] -> o_hp post = o_mhp pre) /\
      (norm_out r = [RExn ELoadFactorTooLow] -> lf_below spb_ pre post = true) /\ no_fuel r
  | ORehash n =>
      obs_pre tb pre /\ (forall b, norm_out r = [RBool b] -> n <= o_hp post) /\ no_fuel r
  | OReserve n =>
      obs_pre tb pre /\
      (forall b, norm_out r = [RBool b] ->
         18446744073709551616 <= n + spb_ \/ n <= N.shiftl 1 (o_hp post) * spb_) /\ no_fuel r
  | _ => True
  end.

Lemma op_spec_not_unmodelled tb m o r m' :
  normal_op o = true -> op_spec tb m o r m' -> r <> [RExn EUnmodelled].
Proof.
  intros Hop H. destruct o; try discriminate Hop; cbn [LazyRefine.op_spec] in H;
    try (destruct H as [_ ->]; try destruct (m k); discriminate).
  all: try (unfold ins_spec in H; destruct (m k) as [v0|];
            [destruct H as [_ ->]; discriminate|
             destruct H as [[e [-> [_ He]]]|[_ ->]]; [|discriminate];
             intro X; injection X as ->; destruct He as [[? _]|[[? _]|?]]; discriminate]).
  all: unfold resize_spec in H; destruct H as [_ [[b [-> _]]|[e [-> [_ [He _]]]]]]; [discriminate|];
       intro X; injection X as ->; destruct He as [[? _]|[[? _]|?]]; discriminate.
Qed.

Ltac jredg Hg Hun Hmv :=
  unfold judge_op; rewrite Hg, Hun, Hmv; cbv beta iota zeta; cbn [andb]; unfold ok, blame.

Ltac oeq r Hr :=
  match goal with
  | |- context [out_eqb r ?e] =>
    let E := fresh "E" in
    assert (E : out_eqb r e = true) by (apply out_eqb_of_norm; exact Hr); rewrite E; clear E
  end.

Lemma complete_OFind tb s a t m k r m' :
  forall pre post, get_st s a = Some t -> st_moved t = false -> srep (st_m t) m -> is_exn r EUnmodelled = false ->
  op_spec tb m (OFind k) (norm_out r) m' ->
  exists s', judge s a (OFind k) r pre post = (s', []) /\ post_ok s' a t m'.
Proof.
  intros pre post Hg Hmv R Hun [Hm Hr]. jredg Hg Hun Hmv.
  rewrite (proj2 R k). oeq r Hr. exists s. split; [reflexivity|].
  apply post_ok_same; [assumption..|]. apply (srep_meq _ _ _ R). apply meq_sym. exact Hm.
Qed.

Lemma complete_OFindThrow tb s a t m k r m' :
  forall pre post, get_st s a = Some t -> st_moved t = false -> srep (st_m t) m -> is_exn r EUnmodelled = false ->
  op_spec tb m (OFindThrow k) (norm_out r) m' ->
  exists s', judge s a (OFindThrow k) r pre post = (s', []) /\ post_ok s' a t m'.
Proof.
  intros pre post Hg Hmv R Hun [Hm Hr]. jredg Hg Hun Hmv.
  rewrite (proj2 R k). oeq r Hr. exists s. split; [reflexivity|].
  apply post_ok_same; [assumption..|]. apply (srep_meq _ _ _ R). apply meq_sym. exact Hm.
Qed.

Lemma complete_OContains tb s a t m k r m' :
  forall pre post, get_st s a = Some t -> st_moved t = false -> srep (st_m t) m -> is_exn r EUnmodelled = false ->
  op_spec tb m (OContains k) (norm_out r) m' ->
  exists s', judge s a (OContains k) r pre post = (s', []) /\ post_ok s' a t m'.
Proof.
  intros pre post Hg Hmv R Hun [Hm Hr]. jredg Hg Hun Hmv.
  rewrite (proj2 R k). oeq r Hr. exists s. split; [reflexivity|].
  apply post_ok_same; [assumption..|]. apply (srep_meq _ _ _ R). apply meq_sym. exact Hm.
Qed.

Lemma complete_OFindFn tb s a t m k r m' :
  forall pre post, get_st s a = Some t -> st_moved t = false -> srep (st_m t) m -> is_exn r EUnmodelled = false ->
  op_spec tb m (OFindFn k) (norm_out r) m' ->
  exists s', judge s a (OFindFn k) r pre post = (s', []) /\ post_ok s' a t m'.
Proof.
  intros pre post Hg Hmv R Hun [Hm Hr]. jredg Hg Hun Hmv.
  rewrite (proj2 R k). oeq r Hr. exists s. split; [reflexivity|].
  apply post_ok_same; [assumption..|]. apply (srep_meq _ _ _ R). apply meq_sym. exact Hm.
Qed.

Lemma complete_OUpdate tb s a t m k v r m' :
  forall pre post, get_st s a = Some t -> st_moved t = false -> srep (st_m t) m -> is_exn r EUnmodelled = false ->
  op_spec tb m (OUpdate k v) (norm_out r) m' ->
  exists s', judge s a (OUpdate k v) r pre post = (s', []) /\ post_ok s' a t m'.
Proof.
  intros pre post Hg Hmv R Hun [Hm Hr]. jredg Hg Hun Hmv. assert (Hf := proj2 R k).
  unfold lk_new in Hm. rewrite <- Hf in Hm, Hr.
  destruct (sfind k (st_m t)) as [v0|]; cbn [fst snd is_some] in Hm, Hr; oeq r Hr; eexists; (split; [reflexivity|]).
  - eapply post_ok_meq; [apply post_ok_put; [exact Hg|apply srep_sset; exact R]|apply meq_sym; exact Hm].
  - eapply post_ok_meq; [apply post_ok_same; eassumption|apply meq_sym; exact Hm].
Qed.

Lemma complete_OUpdateFn tb s a t m k f r m' :
  forall pre post, get_st s a = Some t -> st_moved t = false -> srep (st_m t) m -> is_exn r EUnmodelled = false ->
  op_spec tb m (OUpdateFn k f) (norm_out r) m' ->
  exists s', judge s a (OUpdateFn k f) r pre post = (s', []) /\ post_ok s' a t m'.
Proof.
  intros pre post Hg Hmv R Hun [Hm Hr]. jredg Hg Hun Hmv. assert (Hf := proj2 R k).
  unfold lk_new in Hm. rewrite <- Hf in Hm, Hr.
  destruct (sfind k (st_m t)) as [v0|]; cbn [fst snd is_some] in Hm, Hr; oeq r Hr; eexists; (split; [reflexivity|]).
  - eapply post_ok_meq; [apply post_ok_put; [exact Hg|apply srep_sset; exact R]|apply meq_sym; exact Hm].
  - eapply post_ok_meq; [apply post_ok_same; eassumption|apply meq_sym; exact Hm].
Qed.

Lemma complete_OErase tb s a t m k r m' :
  forall pre post, get_st s a = Some t -> st_moved t = false -> srep (st_m t) m -> is_exn r EUnmodelled = false ->
  op_spec tb m (OErase k) (norm_out r) m' ->
  exists s', judge s a (OErase k) r pre post = (s', []) /\ post_ok s' a t m'.
Proof.
  intros pre post Hg Hmv R Hun [Hm Hr]. jredg Hg Hun Hmv. assert (Hf := proj2 R k).
  unfold lk_new in Hm. rewrite <- Hf in Hm, Hr.
  destruct (sfind k (st_m t)) as [v0|]; cbn [fst snd is_some] in Hm, Hr; oeq r Hr; eexists; (split; [reflexivity|]).
  - eapply post_ok_meq; [apply post_ok_put; [exact Hg|apply srep_sremove; exact R]|apply meq_sym; exact Hm].
  - eapply post_ok_meq; [apply post_ok_same; eassumption|apply meq_sym; exact Hm].
Qed.

Lemma complete_OEraseFn tb s a t m k f r m' :
  forall pre post, get_st s a = Some t -> st_moved t = false -> srep (st_m t) m -> is_exn r EUnmodelled = false ->
  op_spec tb m (OEraseFn k f) (norm_out r) m' ->
  exists s', judge s a (OEraseFn k f) r pre post = (s', []) /\ post_ok s' a t m'.
Proof.
  intros pre post Hg Hmv R Hun [Hm Hr]. jredg Hg Hun Hmv. assert (Hf := proj2 R k).
  unfold lk_new in Hm. rewrite <- Hf in Hm, Hr.
  destruct (sfind k (st_m t)) as [v0|].
  - destruct (fapply f v0 false) as [v' er]. cbn [fst snd] in Hm. oeq r Hr. eexists. split; [reflexivity|].
    eapply post_ok_meq; [apply post_ok_put; [exact Hg|]|apply meq_sym; exact Hm].
    destruct er; [apply srep_sremove|apply srep_sset]; exact R.
  - oeq r Hr. eexists. split; [reflexivity|].
    eapply post_ok_meq; [apply post_ok_same; eassumption|apply meq_sym; exact Hm].
Qed.

Lemma complete_OClear tb s a t m r m' :
  forall pre post, get_st s a = Some t -> st_moved t = false -> srep (st_m t) m -> is_exn r EUnmodelled = false ->
  op_spec tb m OClear (norm_out r) m' ->
  exists s', judge s a OClear r pre post = (s', []) /\ post_ok s' a t m'.
Proof.
  intros pre post Hg Hmv R Hun [Hm Hr]. jredg Hg Hun Hmv. oeq r Hr. eexists. split; [reflexivity|].
  eapply post_ok_meq; [apply post_ok_put; [exact Hg|apply srep_nil]|apply meq_sym; exact Hm].
Qed.

(* ---- insert family *)

Lemma insertish_complete_exp present s a t pre post r exp sm' cl :
  grew_below_minimum spb_ pre post = false -> norm_out r = exp ->
  judge_insertish spb_ present s a t pre post r exp sm' cl = (inval (put_m s a t sm'), []).
Proof.
  intros Hgr Hr. unfold judge_insertish. rewrite Hgr, (out_eqb_of_norm _ _ Hr). reflexivity.
Qed.

Lemma insertish_complete_exn tb s a t pre post r b tl sm' cl e :
  obs_pre tb pre -> o_mlfd pre <> 0 -> grew_below_minimum spb_ pre post = false ->
  (norm_out r = [RExn EMaxHashpower] -> o_hp post = o_mhp pre) ->
  (norm_out r = [RExn ELoadFactorTooLow] -> lf_below spb_ pre post = true) -> no_fuel r ->
  norm_out r = [RExn e] -> exn_ok0 true tb e ->
  judge_insertish spb_ false s a t pre post r (RBool b :: tl) sm' cl = (inval s, []).
Proof.
  intros [_ [Hm Hl]] Hd Hgr Hmax Hlfb Hnf Hr He. unfold judge_insertish. rewrite Hgr.
  assert (E0 : out_eqb r (RBool b :: tl) = false).
  { destruct (out_eqb r (RBool b :: tl)) eqn:E; [|reflexivity]. apply out_eqb_norm in E.
    rewrite Hr in E. discriminate E. }
  rewrite E0. destruct He as [[-> Hne]|[[-> [_ Hne]]| -> ]].
  - rewrite (proj2 (is_exn_iff r _) Hr). unfold maxhp_allowed.
    rewrite (Hmax Hr), N.eqb_refl, Hm. apply N.eqb_neq in Hne. rewrite Hne. reflexivity.
  - assert (E1 : is_exn r EMaxHashpower = false) by (apply is_exn_false; rewrite Hr; discriminate).
    rewrite E1, (proj2 (is_exn_iff r _) Hr).
    assert (E2 : lf_allowed pre = true).
    { apply lf_allowed_pre. split; [|exact Hd]. intro H. apply Hne. apply Hl. exact H. }
    rewrite E2, (Hlfb Hr). reflexivity.
  - exfalso. exact (Hnf Hr).
Qed.

Lemma complete_insertish_gen tb g k v (full : bool) m present s a t pre post r exp sm' cl mm m' :
  obs_pre tb pre -> o_mlfd pre <> 0 -> grew_below_minimum spb_ pre post = false ->
  (norm_out r = [RExn EMaxHashpower] -> o_hp post = o_mhp pre) ->
  (norm_out r = [RExn ELoadFactorTooLow] -> lf_below spb_ pre post = true) -> no_fuel r ->
  get_st s a = Some t -> st_moved t = false -> srep (st_m t) m ->
  srep sm' mm -> present = is_some (m k) ->
  match m k with
  | Some v0 => meq mm (mset m k (final_of g v0 false)) /\
               exp = RBool false :: (if full then log_of g v0 false else [])
  | None => meq mm (mset m k (final_of g v true)) /\
            exp = RBool true :: (if full then log_of g v true else [])
  end ->
  ins_spec tb g k v full m (norm_out r) m' ->
  exists s', judge_insertish spb_ present s a t pre post r exp sm' cl = (s', []) /\ post_ok s' a t m'.
Proof.
  intros Hpre Hd Hgr Hmax Hlfb Hnf Hg Hmv R R' Hp Hcase H. unfold ins_spec in H. subst present.
  destruct (m k) as [v0|].
  - destruct Hcase as [Hmm ->]. destruct H as [Hm' Hr].
    eexists. split; [apply insertish_complete_exp; assumption|].
    eapply post_ok_meq; [apply post_ok_put; [exact Hg|exact R']|].
    eapply meq_trans; [exact Hmm|apply meq_sym; exact Hm'].
  - destruct Hcase as [Hmm ->]. destruct H as [[e [Hr [Hm' He]]]|[Hm' Hr]].
    + eexists. split; [eapply insertish_complete_exn; eassumption|].
      apply post_ok_inval. eapply post_ok_meq; [apply post_ok_same; eassumption|apply meq_sym; exact Hm'].
    + eexists. split; [apply insertish_complete_exp; assumption|].
      eapply post_ok_meq; [apply post_ok_put; [exact Hg|exact R']|].
      eapply meq_trans; [exact Hmm|apply meq_sym; exact Hm'].
Qed.

Lemma complete_OInsert tb s a t m k v r m' :
  forall pre post, get_st s a = Some t -> st_moved t = false -> srep (st_m t) m -> is_exn r EUnmodelled = false ->
  obs_consistent tb (OInsert k v) r pre post ->
  op_spec tb m (OInsert k v) (norm_out r) m' ->
  exists s', judge s a (OInsert k v) r pre post = (s', []) /\ post_ok s' a t m'.
Proof.
  intros pre post Hg Hmv R Hun [Hpre [Hd [Hgr [Hmax [Hlfb Hnf]]]]] H. jredg Hg Hun Hmv. assert (Hf := proj2 R k).
  cbn [LazyRefine.op_spec] in H.
  destruct (sfind k (st_m t)) as [v0|] eqn:Ef.
  - eapply (complete_insertish_gen tb _ k v false m _ _ _ _ _ _ _ _ _ _ m m' Hpre Hd Hgr Hmax Hlfb Hnf Hg Hmv R);
      [exact R|rewrite <- Hf; reflexivity| |exact H].
    rewrite <- Hf. split; [|reflexivity]. apply meq_mset_self. symmetry. exact Hf.
  - eapply (complete_insertish_gen tb _ k v false m _ _ _ _ _ _ _ _ _ _ _ m' Hpre Hd Hgr Hmax Hlfb Hnf Hg Hmv R);
      [apply srep_sset; exact R|rewrite <- Hf; reflexivity| |exact H].
    rewrite <- Hf. split; [intro; reflexivity|reflexivity].
Qed.

Lemma complete_OIoa tb s a t m k v r m' :
  forall pre post, get_st s a = Some t -> st_moved t = false -> srep (st_m t) m -> is_exn r EUnmodelled = false ->
  obs_consistent tb (OIoa k v) r pre post ->
  op_spec tb m (OIoa k v) (norm_out r) m' ->
  exists s', judge s a (OIoa k v) r pre post = (s', []) /\ post_ok s' a t m'.
Proof.
  intros pre post Hg Hmv R Hun [Hpre [Hd [Hgr [Hmax [Hlfb Hnf]]]]] H. jredg Hg Hun Hmv. assert (Hf := proj2 R k).
  cbn [LazyRefine.op_spec] in H.
  destruct (sfind k (st_m t)) as [v0|] eqn:Ef.
  - eapply (complete_insertish_gen tb _ k v false m _ _ _ _ _ _ _ _ _ _ _ m' Hpre Hd Hgr Hmax Hlfb Hnf Hg Hmv R);
      [apply srep_sset; exact R|rewrite <- Hf; reflexivity| |exact H].
    rewrite <- Hf. split; [intro; reflexivity|reflexivity].
  - eapply (complete_insertish_gen tb _ k v false m _ _ _ _ _ _ _ _ _ _ _ m' Hpre Hd Hgr Hmax Hlfb Hnf Hg Hmv R);
      [apply srep_sset; exact R|rewrite <- Hf; reflexivity| |exact H].
    rewrite <- Hf. split; [intro; reflexivity|reflexivity].
Qed.

Lemma complete_OUpsert tb s a t m k f two v r m' :
  forall pre post, get_st s a = Some t -> st_moved t = false -> srep (st_m t) m -> is_exn r EUnmodelled = false ->
  obs_consistent tb (OUpsert k f two v) r pre post ->
  op_spec tb m (OUpsert k f two v) (norm_out r) m' ->
  exists s', judge s a (OUpsert k f two v) r pre post = (s', []) /\ post_ok s' a t m'.
Proof.
  intros pre post Hg Hmv R Hun [Hpre [Hd [Hgr [Hmax [Hlfb Hnf]]]]] H. jredg Hg Hun Hmv. assert (Hf := proj2 R k).
  cbn [LazyRefine.op_spec] in H.
  destruct (sfind k (st_m t)) as [v0|] eqn:Ef; [|destruct two].
  - eapply (complete_insertish_gen tb _ k v true m _ _ _ _ _ _ _ _ _ _ _ m' Hpre Hd Hgr Hmax Hlfb Hnf Hg Hmv R);
      [apply srep_sset; exact R|rewrite <- Hf; reflexivity| |exact H].
    rewrite <- Hf. unfold final_of, log_of, invoke. rewrite andb_false_r.
    destruct (fapply f v0 false) as [v' er]. cbn [fst andb]. split; [intro; reflexivity|reflexivity].
  - eapply (complete_insertish_gen tb _ k v true m _ _ _ _ _ _ _ _ _ _ _ m' Hpre Hd Hgr Hmax Hlfb Hnf Hg Hmv R);
      [apply srep_sset; exact R|rewrite <- Hf; reflexivity| |exact H].
    rewrite <- Hf. unfold final_of, log_of, invoke. cbn [negb andb].
    destruct (fapply f v true) as [v' er]. cbn [fst]. split; [intro; reflexivity|reflexivity].
  - eapply (complete_insertish_gen tb _ k v true m _ _ _ _ _ _ _ _ _ _ _ m' Hpre Hd Hgr Hmax Hlfb Hnf Hg Hmv R);
      [apply srep_sset; exact R|rewrite <- Hf; reflexivity| |exact H].
    rewrite <- Hf. unfold final_of, log_of, invoke. cbn [negb andb].
    split; [intro; reflexivity|reflexivity].
Qed.

Lemma complete_OUprase tb s a t m k f two v r m' :
  forall pre post, get_st s a = Some t -> st_moved t = false -> srep (st_m t) m -> is_exn r EUnmodelled = false ->
  obs_consistent tb (OUprase k f two v) r pre post ->
  op_spec tb m (OUprase k f two v) (norm_out r) m' ->
  exists s', judge s a (OUprase k f two v) r pre post = (s', []) /\ post_ok s' a t m'.
Proof.
  intros pre post Hg Hmv R Hun [Hpre [Hd [Hgr [Hmax [Hlfb Hnf]]]]] H. jredg Hg Hun Hmv. assert (Hf := proj2 R k).
  cbn [LazyRefine.op_spec] in H.
  destruct (sfind k (st_m t)) as [v0|] eqn:Ef; [|destruct two].
  - destruct (fapply f v0 false) as [v' er] eqn:Ea.
    eapply (complete_insertish_gen tb _ k v true m _ _ _ _ _ _ _ _ _ _
              (mset m k (if er then None else Some v')) m' Hpre Hd Hgr Hmax Hlfb Hnf Hg Hmv R); [|rewrite <- Hf; reflexivity| |exact H].
    + destruct er; [apply srep_sremove|apply srep_sset]; exact R.
    + rewrite <- Hf. unfold final_of, log_of, invoke. rewrite andb_false_r, Ea. cbn [andb].
      destruct er; (split; [intro; reflexivity|reflexivity]).
  - destruct (fapply f v true) as [v' er] eqn:Ea.
    eapply (complete_insertish_gen tb _ k v true m _ _ _ _ _ _ _ _ _ _
              (mset m k (if er then None else Some v')) m' Hpre Hd Hgr Hmax Hlfb Hnf Hg Hmv R); [|rewrite <- Hf; reflexivity| |exact H].
    + destruct er; [|apply srep_sset; exact R].
      apply (srep_meq _ m); [exact R|]. apply meq_mset_self. symmetry. exact Hf.
    + rewrite <- Hf. unfold final_of, log_of, invoke. cbn [negb andb]. rewrite Ea. cbn [andb].
      destruct er; (split; [intro; reflexivity|reflexivity]).
  - eapply (complete_insertish_gen tb _ k v true m _ _ _ _ _ _ _ _ _ _ _ m' Hpre Hd Hgr Hmax Hlfb Hnf Hg Hmv R);
      [apply srep_sset; exact R|rewrite <- Hf; reflexivity| |exact H].
    rewrite <- Hf. unfold final_of, log_of, invoke. cbn [negb andb].
    split; [intro; reflexivity|reflexivity].
Qed.

(* ---- rehash / reserve *)

Lemma norm_out_bool r b : norm_out r = [RBool b] -> r = [RBool b].
Proof.
  destruct r as [|x [|y r]]; try discriminate. cbn [norm_out map]. intro H. injection H as H.
  destruct x; try discriminate H. cbn [norm_rv] in H. rewrite H. reflexivity.
Qed.

Lemma resize_exn_accepted tb pre r e target :
  obs_pre tb pre -> no_fuel r -> norm_out r = [RExn e] -> target <> bhp (cur tb) ->
  exn_ok0 false tb e -> e <> ELoadFactorTooLow ->
  is_exn r EMaxHashpower = true /\
  negb (o_mhp pre =? NO_MAXIMUM_HASHPOWER) && negb (target =? o_hp pre) = true.
Proof.
  intros [Hhp [Hm _]] Hnf Hr Hne He Hlf. destruct He as [[-> Hmx]|[[-> _]| -> ]].
  - split; [apply is_exn_iff; exact Hr|]. apply andb_true_iff. split.
    + rewrite Hm. apply negb_true_iff. apply N.eqb_neq. exact Hmx.
    + rewrite Hhp. apply negb_true_iff. apply N.eqb_neq. exact Hne.
  - contradiction.
  - exfalso. exact (Hnf Hr).
Qed.

Lemma changed_bool b target hp : (b = false <-> target = hp) -> b = negb (target =? hp).
Proof.
  intro Hb. destruct b.
  - destruct (N.eqb_spec target hp) as [E|E]; [|reflexivity]. apply Hb in E. discriminate E.
  - rewrite (proj1 Hb eq_refl), N.eqb_refl. reflexivity.
Qed.

Lemma complete_ORehash tb s a t m n r m' :
  forall pre post, get_st s a = Some t -> st_moved t = false -> srep (st_m t) m -> is_exn r EUnmodelled = false ->
  obs_consistent tb (ORehash n) r pre post ->
  op_spec tb m (ORehash n) (norm_out r) m' ->
  exists s', judge s a (ORehash n) r pre post = (s', []) /\ post_ok s' a t m'.
Proof.
  intros pre post Hg Hmv R Hun [Hpre [Hbig Hnf]] [Hm H]. jredg Hg Hun Hmv.
  assert (P : post_ok (inval s) a t m').
  { apply post_ok_inval. eapply post_ok_meq; [apply post_ok_same; eassumption|apply meq_sym; exact Hm]. }
  destruct H as [[b [Hr Hb]]|[e [Hr [Hne [He Hlf]]]]].
  - assert (E1 : is_exn r EMaxHashpower = false) by (apply is_exn_false; rewrite Hr; discriminate).
    assert (E2 : is_exn r ELoadFactorTooLow = false) by (apply is_exn_false; rewrite Hr; discriminate).
    rewrite E1, E2.
    assert (E3 : out_eqb r [RBool (negb (n =? o_hp pre))] = true).
    { apply out_eqb_of_norm. rewrite Hr, (proj1 Hpre). f_equal. f_equal. apply changed_bool. exact Hb. }
    rewrite E3, (proj2 (N.leb_le _ _) (Hbig b Hr)). exists (inval s). split; [reflexivity|exact P].
  - destruct (resize_exn_accepted tb pre r e n Hpre Hnf Hr Hne He Hlf) as [E1 E2]. rewrite E1, E2.
    exists (inval s). split; [reflexivity|exact P].
Qed.

Lemma complete_OReserve tb s a t m n r m' :
  forall pre post, spb c = spb_ ->
  get_st s a = Some t -> st_moved t = false -> srep (st_m t) m -> is_exn r EUnmodelled = false ->
  obs_consistent tb (OReserve n) r pre post ->
  op_spec tb m (OReserve n) (norm_out r) m' ->
  exists s', judge s a (OReserve n) r pre post = (s', []) /\ post_ok s' a t m'.
Proof.
  intros pre post Hspb Hg Hmv R Hun [Hpre [Hbig Hnf]] [Hm H]. jredg Hg Hun Hmv.
  fold (cfg_of_spb spb_). rewrite (reserve_calc_cfg_of_spb c spb_ n Hspb).
  assert (P : post_ok (inval s) a t m').
  { apply post_ok_inval. eapply post_ok_meq; [apply post_ok_same; eassumption|apply meq_sym; exact Hm]. }
  destruct H as [[b [Hr Hb]]|[e [Hr [Hne [He Hlf]]]]].
  - assert (E1 : is_exn r EMaxHashpower = false) by (apply is_exn_false; rewrite Hr; discriminate).
    assert (E2 : is_exn r ELoadFactorTooLow = false) by (apply is_exn_false; rewrite Hr; discriminate).
    rewrite E1, E2.
    assert (E3 : out_eqb r [RBool (negb (reserve_calc c n =? o_hp pre))] = true).
    { apply out_eqb_of_norm. rewrite Hr, (proj1 Hpre). f_equal. f_equal. apply changed_bool. exact Hb. }
    assert (E4 : (18446744073709551616 <=? n + spb_) || (n <=? N.shiftl 1 (o_hp post) * spb_) = true).
    { apply orb_true_iff. destruct (Hbig b Hr) as [X|X]; [left|right]; apply N.leb_le; exact X. }
    rewrite E3, E4. exists (inval s). split; [reflexivity|exact P].
  - destruct (resize_exn_accepted tb pre r e _ Hpre Hnf Hr Hne He Hlf) as [E1 E2]. rewrite E1, E2.
    exists (inval s). split; [reflexivity|exact P].
Qed.

(* ---- THE PACKAGED COMPLETENESS STATEMENT: an output conforming to [op_spec] (for the table
   [tb] the pre-observation was read from) with consistent observations is not blamed, and the
   acceptor's new association list represents the prescribed map. *)
Theorem judge_complete tb s a t m o r m' pre post :
  normal_op o = true -> spb c = spb_ ->
  get_st s a = Some t -> st_moved t = false -> srep (st_m t) m ->
  op_spec tb m o (norm_out r) m' -> obs_consistent tb o r pre post ->
  exists s', judge s a o r pre post = (s', []) /\ post_ok s' a t m'.
Proof.
  intros Hop Hspb Hg Hmv R H Hobs.
  assert (Hun : is_exn r EUnmodelled = false).
  { apply is_exn_false. exact (op_spec_not_unmodelled tb m o _ m' Hop H). }
  destruct o; try discriminate Hop.
  - exact (complete_OFind tb _ _ _ _ _ _ _ pre post Hg Hmv R Hun H).
  - exact (complete_OFindThrow tb _ _ _ _ _ _ _ pre post Hg Hmv R Hun H).
  - exact (complete_OContains tb _ _ _ _ _ _ _ pre post Hg Hmv R Hun H).
  - exact (complete_OFindFn tb _ _ _ _ _ _ _ pre post Hg Hmv R Hun H).
  - exact (complete_OUpdate tb _ _ _ _ _ _ _ _ pre post Hg Hmv R Hun H).
  - exact (complete_OUpdateFn tb _ _ _ _ _ _ _ _ pre post Hg Hmv R Hun H).
  - exact (complete_OInsert tb _ _ _ _ _ _ _ _ pre post Hg Hmv R Hun Hobs H).
  - exact (complete_OIoa tb _ _ _ _ _ _ _ _ pre post Hg Hmv R Hun Hobs H).
  - exact (complete_OUpsert tb _ _ _ _ _ _ _ _ _ _ pre post Hg Hmv R Hun Hobs H).
  - exact (complete_OUprase tb _ _ _ _ _ _ _ _ _ _ pre post Hg Hmv R Hun Hobs H).
  - exact (complete_OErase tb _ _ _ _ _ _ _ pre post Hg Hmv R Hun H).
  - exact (complete_OEraseFn tb _ _ _ _ _ _ _ _ pre post Hg Hmv R Hun H).
  - exact (complete_ORehash tb _ _ _ _ _ _ _ pre post Hg Hmv R Hun Hobs H).
  - exact (complete_OReserve tb _ _ _ _ _ _ _ pre post Hspb Hg Hmv R Hun Hobs H).
  - exact (complete_OClear tb _ _ _ _ _ _ pre post Hg Hmv R Hun H).
Qed.

(* lookup family and clear: no condition on the observations at all *)
Corollary judge_complete_lookup tb s a t m o r m' pre post :
  lookup_or_clear o = true ->
  get_st s a = Some t -> st_moved t = false -> srep (st_m t) m ->
  op_spec tb m o (norm_out r) m' ->
  exists s', judge s a o r pre post = (s', []) /\ post_ok s' a t m'.
Proof.
  intros Hop Hg Hmv R H.
  assert (Hop' : normal_op o = true) by (destruct o; try discriminate Hop; reflexivity).
  assert (Hun : is_exn r EUnmodelled = false).
  { apply is_exn_false. exact (op_spec_not_unmodelled tb m o _ m' Hop' H). }
  destruct o; try discriminate Hop.
  - exact (complete_OFind tb _ _ _ _ _ _ _ pre post Hg Hmv R Hun H).
  - exact (complete_OFindThrow tb _ _ _ _ _ _ _ pre post Hg Hmv R Hun H).
  - exact (complete_OContains tb _ _ _ _ _ _ _ pre post Hg Hmv R Hun H).
  - exact (complete_OFindFn tb _ _ _ _ _ _ _ pre post Hg Hmv R Hun H).
  - exact (complete_OUpdate tb _ _ _ _ _ _ _ _ pre post Hg Hmv R Hun H).
  - exact (complete_OUpdateFn tb _ _ _ _ _ _ _ _ pre post Hg Hmv R Hun H).
  - exact (complete_OErase tb _ _ _ _ _ _ _ pre post Hg Hmv R Hun H).
  - exact (complete_OEraseFn tb _ _ _ _ _ _ _ _ pre post Hg Hmv R Hun H).
  - exact (complete_OClear tb _ _ _ _ _ _ pre post Hg Hmv R Hun H).
Qed.

End Complete.

(* ================================================================== 5. composition with the model's refinement *)

Section Compose.
Variable c : config.
Variable hash : N -> N.
Hypothesis Hc : cfg_ok c.
Variable fapply : fnk -> Z -> bool -> Z * bool.
Variable spb_ : N.
Notation judge := (judge_op fapply spb_).
Notation op_spec := (op_spec c fapply).

(* results prescribed by [op_spec] never contain an [RNat]: they are their own normal form *)
Lemma op_spec_norm tb m o r m' : normal_op o = true -> op_spec tb m o r m' -> norm_out r = r.
Proof.
  intros Hop H. destruct o; try discriminate Hop; cbn [LazyRefine.op_spec] in H;
    try (destruct H as [_ ->]; try destruct (m k); reflexivity).
  all: try (unfold ins_spec, log_of in H; destruct (m k) as [v0|];
            [destruct H as [_ ->]|destruct H as [[e [-> _]]|[_ ->]]];
            try reflexivity;
            match goal with |- context [match ?g with Some _ => _ | None => _ end] => destruct g end; reflexivity).
  all: unfold resize_spec in H; destruct H as [_ [[b [-> _]]|[e [-> _]]]]; reflexivity.
Qed.

(* the observation the harness reads off a table of the model (driver.ml [dump_table]; the dump
   prints the minimum load factor reduced, which [obs_pre] is insensitive to) *)
Definition obs_of (t : table) (act : bool) : obs :=
  {| o_hp := bhp (cur t); o_size := tsize t; o_cap := capacity c t; o_mlfn := mlfn t; o_mlfd := mlfd t;
     o_mhp := mhp t; o_act := act; o_dead := bdead (cur t) |}.

Lemma obs_pre_obs_of t act : obs_pre t (obs_of t act).
Proof. split; [reflexivity|]. split; [reflexivity|]. cbn [obs_of o_mlfn]. reflexivity. Qed.

(* THE MODEL'S OUTPUTS ARE ACCEPTED: one normal-mode step of the sequential model from a table
   represented by [m], judged by the acceptor from a state whose association list represents the
   same [m], is not blamed, and the two stay related ([rep] / [srep] of the same [m']). *)
Theorem model_accepted w a sl o w' r m s ts pre post :
  spb c = spb_ -> nothrow c = true -> active sl = false -> normal_op o = true ->
  lgood c hash (tb sl) -> rep c (tb sl) m -> op_pre c (tb sl) o ->
  step_some c hash fapply w a sl o = (w', r) ->
  get_st s a = Some ts -> st_moved ts = false -> srep (st_m ts) m ->
  obs_consistent spb_ (tb sl) o r pre post ->
  lesc c hash (tb sl) \/
  exists t' m' s',
    w' = put_t w a sl t' /\ lgood c hash t' /\ lim_same (tb sl) t' /\ rep c t' m' /\
    judge s a o r pre post = (s', []) /\ post_ok s' a ts m'.
Proof.
  intros Hspb Hnt Hact Hop G Rm Hpre E Hg Hmv R Hobs.
  destruct (normal_mode_op_refines c hash Hc fapply w a sl o w' r m Hnt Hact Hop G Rm Hpre E)
    as [He|[t' [m' [Hw [G' [L [R' Hs]]]]]]]; [left; exact He|right].
  assert (Hn : norm_out r = r) by exact (op_spec_norm _ _ _ _ _ Hop Hs).
  rewrite <- Hn in Hs.
  destruct (judge_complete c fapply spb_ (tb sl) s a ts m o r m' pre post Hop Hspb Hg Hmv R Hs Hobs) as [s' [Hj P]].
  exists t', m', s'. split; [exact Hw|]. split; [exact G'|]. split; [exact L|]. split; [exact R'|].
  split; [exact Hj|exact P].
Qed.

(* lookup family and clear: the refinement without the escape clause [lesc] (which concerns
   automatic doubling only); same proofs as LazyRefine.refines_OFind .. refines_OClear *)
Lemma lookup_refines_noesc w a sl o w' r m :
  active sl = false -> lookup_or_clear o = true ->
  lgood c hash (tb sl) -> rep c (tb sl) m ->
  step_some c hash fapply w a sl o = (w', r) ->
  exists t' m', w' = put_t w a sl t' /\ lgood c hash t' /\ lim_same (tb sl) t' /\ rep c t' m' /\
                op_spec (tb sl) m o r m'.
Proof.
  intros Hact Hop G R E. destruct o; try discriminate Hop;
    cbv beta iota zeta delta [step_some] in E; rewrite Hact in E; rewrite if_negb_false in E.
  1-4: destruct (step_lookup c hash Hc (tb sl) k _ _ w' r m G R E) as [t' [E' [G' [L R']]]];
       injection E' as <- <-; exists t', (lk_new (fun v => (v, false)) m k);
       (split; [reflexivity|]); (split; [exact G'|]); (split; [exact L|]); (split; [exact R'|]);
       cbn [LazyRefine.op_spec]; (split; [apply lk_new_id; reflexivity|reflexivity]).
  1-4: destruct (step_lookup c hash Hc (tb sl) k _ _ w' r m G R E) as [t' [E' [G' [L R']]]];
       injection E' as <- <-; eexists t', _;
       (split; [reflexivity|]); (split; [exact G'|]); (split; [exact L|]); (split; [exact R'|]);
       cbn [LazyRefine.op_spec]; (split; [intro; reflexivity|]); try reflexivity; destruct (m k); reflexivity.
  injection E as <- <-.
  destruct (cuckoo_clear_lgood c hash (tb sl) G) as [G' [Hno [L _]]].
  exists (cuckoo_clear (tb sl)), mempty. split; [reflexivity|]. split; [apply good_lgood; exact G'|].
  split; [exact L|]. split.
  - intros k v. split; [intro H; exfalso; exact (Hno k v H)|intro H; discriminate].
  - cbn [LazyRefine.op_spec]. split; [intro; reflexivity|reflexivity].
Qed.

(* ... hence accepted unconditionally (any observations, no escape clause) *)
Corollary model_accepted_lookup w a sl o w' r m s ts pre post :
  active sl = false -> lookup_or_clear o = true ->
  lgood c hash (tb sl) -> rep c (tb sl) m ->
  step_some c hash fapply w a sl o = (w', r) ->
  get_st s a = Some ts -> st_moved ts = false -> srep (st_m ts) m ->
  exists t' m' s',
    w' = put_t w a sl t' /\ lgood c hash t' /\ lim_same (tb sl) t' /\ rep c t' m' /\
    judge s a o r pre post = (s', []) /\ post_ok s' a ts m'.
Proof.
  intros Hact Hop G Rm E Hg Hmv R.
  assert (Hop' : normal_op o = true) by (destruct o; try discriminate Hop; reflexivity).
  destruct (lookup_refines_noesc w a sl o w' r m Hact Hop G Rm E) as [t' [m' [Hw [G' [L [R' Hs]]]]]].
  assert (Hn : norm_out r = r) by exact (op_spec_norm _ _ _ _ _ Hop' Hs).
  rewrite <- Hn in Hs.
  destruct (judge_complete_lookup c fapply spb_ (tb sl) s a ts m o r m' pre post Hop Hg Hmv R Hs) as [s' [Hj P]].
  exists t', m', s'. split; [exact Hw|]. split; [exact G'|]. split; [exact L|]. split; [exact R'|].
  split; [exact Hj|exact P].
Qed.

(* ---- insert family: the model's outputs are accepted provided (i) the step did not stop on the
   model's fuel bound, (ii) the minimum load factor has a non-zero denominator and (iii) the
   acceptor's doubling check [grew_below_minimum] does not fire on the model's own statistics and
   (iv) a load-factor exception of the model leaves the load factor strictly below the minimum
   in the acceptor's reading ([lf_below]; the model's [Refine.exn_ok] has [lf_lt_mlf c t'], which
   differs by [tsize t' = tsize t] and the 64-bit wrap of the capacity).
   (i) is NoFuel.v's subject and (iii) a property of the model's automatic doubling (every doubling
   happens at load factor >= minimum); none of (i), (iii), (iv) is derivable from [op_spec], they
   are left as hypotheses here.  The remaining exception side condition of the acceptor (a maximum-hashpower
   exception leaves the table AT the maximum) IS discharged, from [Refine.exn_ok]. *)
Definition ures_out (full : bool) (x : exn + (bool * list rv * (N * N))) : out :=
  match x with
  | inl e => exn_out e
  | inr (ins, lg, _) => RBool ins :: (if full then lg else [])
  end.

Lemma uprase_gen_accept_core t k v g full m t1 x :
  nothrow c = true -> lgood c hash t -> rep c t m -> uprase_gen c hash false t k v g = (t1, x) ->
  lesc c hash t \/
  (lgood c hash t1 /\ lim_same t t1 /\
   exists m', rep c t1 m' /\ ins_spec t g k v full m (ures_out full x) m' /\
              (ures_out full x = [RExn EMaxHashpower] -> bhp (cur t1) = mhp t)).
Proof.
  intros Hnt G R Eu.
  destruct (uprase_gen_rep c hash Hc t k v g m t1 x Hnt G R Eu) as [He|[G' [L H]]]; [left; exact He|right].
  split; [exact G'|]. split; [exact L|]. unfold ins_spec.
  destruct x as [e|[[ins lg] p]]; cbn [ures_out].
  - destruct H as [Emk [He R']]. rewrite Emk. exists m. split; [exact R'|]. split.
    + left. exists e. split; [reflexivity|]. split; [intro; reflexivity|apply He].
    + unfold exn_out. intro Hx. injection Hx as ->. destruct He as [_ Hk]. exact (proj1 (Hk Hnt) eq_refl).
  - destruct (m k) as [v0|].
    + destruct H as [-> [-> [_ R']]]. eexists. split; [exact R'|].
      split; [split; [intro; reflexivity|reflexivity]|discriminate].
    + destruct H as [-> [-> R']]. eexists. split; [exact R'|].
      split; [right; split; [intro; reflexivity|reflexivity]|discriminate].
Qed.

(* the step of an insert-family operation, with the extra fact about the final hashpower *)
Lemma ins_step_refines w a sl o w' r m :
  nothrow c = true -> active sl = false -> ins_family o = true ->
  lgood c hash (tb sl) -> rep c (tb sl) m ->
  step_some c hash fapply w a sl o = (w', r) ->
  lesc c hash (tb sl) \/
  exists t' m', w' = put_t w a sl t' /\ lgood c hash t' /\ lim_same (tb sl) t' /\ rep c t' m' /\
                op_spec (tb sl) m o r m' /\
                (r = [RExn EMaxHashpower] -> bhp (cur t') = mhp (tb sl)).
Proof.
  intros Hnt Hact Hop G R E. destruct o; try discriminate Hop;
    cbv beta iota zeta delta [step_some] in E; rewrite Hact in E; rewrite if_negb_false in E.
  - destruct (uprase_gen c hash false (tb sl) k v (fun _ _ => None)) as [t1 x] eqn:Eu.
    destruct (uprase_gen_accept_core (tb sl) k v _ false m t1 x Hnt G R Eu) as [He|[G' [L [m' [R' [Hs Hx]]]]]];
      [left; exact He|right].
    exists t1, m'.
    destruct x as [e|[[ins lg] p]]; injection E as <- <-;
      (split; [reflexivity|]); (split; [exact G'|]); (split; [exact L|]); (split; [exact R'|]);
      (split; [exact Hs|exact Hx]).
  - destruct (uprase_gen c hash false (tb sl) k v (fun _ newly => if newly then None else Some (v, false)))
      as [t1 x] eqn:Eu.
    destruct (uprase_gen_accept_core (tb sl) k v _ false m t1 x Hnt G R Eu) as [He|[G' [L [m' [R' [Hs Hx]]]]]];
      [left; exact He|right].
    exists t1, m'.
    destruct x as [e|[[ins lg] p]]; injection E as <- <-;
      (split; [reflexivity|]); (split; [exact G'|]); (split; [exact L|]); (split; [exact R'|]);
      (split; [exact Hs|exact Hx]).
  - destruct (uprase_gen c hash false (tb sl) k v (invoke fapply f two false)) as [t1 x] eqn:Eu.
    destruct (uprase_gen_accept_core (tb sl) k v _ true m t1 x Hnt G R Eu) as [He|[G' [L [m' [R' [Hs Hx]]]]]];
      [left; exact He|right].
    exists t1, m'.
    destruct x as [e|[[ins lg] p]]; injection E as <- <-;
      (split; [reflexivity|]); (split; [exact G'|]); (split; [exact L|]); (split; [exact R'|]);
      (split; [exact Hs|exact Hx]).
  - destruct (uprase_gen c hash false (tb sl) k v (invoke fapply f two true)) as [t1 x] eqn:Eu.
    destruct (uprase_gen_accept_core (tb sl) k v _ true m t1 x Hnt G R Eu) as [He|[G' [L [m' [R' [Hs Hx]]]]]];
      [left; exact He|right].
    exists t1, m'.
    destruct x as [e|[[ins lg] p]]; injection E as <- <-;
      (split; [reflexivity|]); (split; [exact G'|]); (split; [exact L|]); (split; [exact R'|]);
      (split; [exact Hs|exact Hx]).
Qed.

Theorem model_accepted_insert w a sl o w' r m s ts :
  spb c = spb_ -> nothrow c = true -> active sl = false -> ins_family o = true ->
  lgood c hash (tb sl) -> rep c (tb sl) m ->
  step_some c hash fapply w a sl o = (w', r) ->
  get_st s a = Some ts -> st_moved ts = false -> srep (st_m ts) m ->
  mlfd (tb sl) <> 0 -> no_fuel r ->
  lesc c hash (tb sl) \/
  exists t' m',
    w' = put_t w a sl t' /\ lgood c hash t' /\ lim_same (tb sl) t' /\ rep c t' m' /\
    forall x y,
      grew_below_minimum spb_ (obs_of (tb sl) x) (obs_of t' y) = false ->
      (r = [RExn ELoadFactorTooLow] -> lf_below spb_ (obs_of (tb sl) x) (obs_of t' y) = true) ->
      exists s', judge s a o r (obs_of (tb sl) x) (obs_of t' y) = (s', []) /\ post_ok s' a ts m'.
Proof.
  intros Hspb Hnt Hact Hop G Rm E Hg Hmv R Hd Hnf.
  destruct (ins_step_refines w a sl o w' r m Hnt Hact Hop G Rm E)
    as [He|[t' [m' [Hw [G' [L [R' [Hs Hx]]]]]]]]; [left; exact He|right].
  exists t', m'. split; [exact Hw|]. split; [exact G'|]. split; [exact L|]. split; [exact R'|].
  intros x y Hgr Hlfb.
  assert (Hop' : normal_op o = true) by (destruct o; try discriminate Hop; reflexivity).
  assert (Hn : norm_out r = r) by exact (op_spec_norm _ _ _ _ _ Hop' Hs).
  assert (Hobs : obs_consistent spb_ (tb sl) o r (obs_of (tb sl) x) (obs_of t' y)).
  { destruct o; try discriminate Hop; cbn [obs_consistent];
      (split; [apply obs_pre_obs_of|]); (split; [exact Hd|]); (split; [exact Hgr|]);
      (split; [rewrite Hn; exact Hx|]); (split; [rewrite Hn; exact Hlfb|exact Hnf]). }
  rewrite <- Hn in Hs.
  exact (judge_complete c fapply spb_ (tb sl) s a ts m o r m' _ _ Hop' Hspb Hg Hmv R Hs Hobs).
Qed.

End Compose.

(* ================================================================== 6. the statistics clauses ([judge_stats]) *)

Section Stats.
Variable spb_ : N.

(* what [judge_stats] checks for one (table, observation) pair *)
Definition stat_entry_ok (p : option stab * option obs) : Prop :=
  match p with
  | (Some t, Some ob) =>
      st_moved t = true \/
      (o_dead ob = true /\ o_size ob = 0) \/
      (o_dead ob = false /\ o_size ob = ssize (st_m t) /\ o_cap ob = N.shiftl 1 (o_hp ob) * spb_ /\
       (o_mhp ob = NO_MAXIMUM_HASHPOWER \/ o_hp ob <= o_mhp ob))
  | _ => True
  end.

Lemma flat_map_nil {A B} (f : A -> list B) l : flat_map f l = [] <-> Forall (fun x => f x = []) l.
Proof.
  induction l as [|x l IH]; cbn [flat_map]; [split; [constructor|reflexivity]|].
  split.
  - intro H. apply app_eq_nil in H. destruct H as [H1 H2]. constructor; [exact H1|apply IH; exact H2].
  - intro H. inversion H as [|y l' H1 H2]; subst. rewrite H1. apply IH. exact H2.
Qed.

(* [judge_stats] blames nothing  iff  every live, tracked table has size = number of pairs of the
   acceptor's list (= number of keys of the represented map, [ssize_keys]), capacity =
   2^hashpower * slots-per-bucket and hashpower within the configured maximum *)
Theorem judge_stats_nil s posts :
  judge_stats spb_ s posts = [] <-> Forall stat_entry_ok (combine (s_tabs s) posts).
Proof.
  unfold judge_stats. rewrite flat_map_nil.
  split; intro H; (eapply Forall_impl; [|exact H]); intros [[t|] [ob|]]; cbn [stat_entry_ok]; try (intros; exact I || reflexivity).
  - destruct (st_moved t); [intros _; left; reflexivity|]. intro X. right.
    apply app_eq_nil in X. destruct X as [X1 X2]. destruct (o_dead ob).
    + left. split; [reflexivity|]. destruct (N.eqb_spec (o_size ob) 0) as [E|E]; [exact E|discriminate X1].
    + right. split; [reflexivity|]. cbn [orb] in X2.
      destruct (stats_ok spb_ (st_m t) ob) eqn:E1; [|discriminate X1].
      destruct (limit_ok ob) eqn:E2; [|discriminate X2].
      unfold stats_ok in E1. apply andb_true_iff in E1. destruct E1 as [Ea Eb].
      apply N.eqb_eq in Ea. apply N.eqb_eq in Eb. split; [exact Ea|]. split; [exact Eb|].
      unfold limit_ok in E2. apply orb_true_iff in E2. destruct E2 as [E2|E2];
        [left; apply N.eqb_eq; exact E2|right; apply N.leb_le; exact E2].
  - intros [X|[[X1 X2]|[X1 [X2 [X3 X4]]]]].
    + rewrite X. reflexivity.
    + destruct (st_moved t); [reflexivity|]. rewrite X1, X2. reflexivity.
    + destruct (st_moved t); [reflexivity|]. rewrite X1. cbn [orb].
      assert (E1 : stats_ok spb_ (st_m t) ob = true).
      { unfold stats_ok. rewrite X2, X3, !N.eqb_refl. reflexivity. }
      assert (E2 : limit_ok ob = true).
      { unfold limit_ok. apply orb_true_iff. destruct X4 as [X4|X4];
          [left; apply N.eqb_eq; exact X4|right; apply N.leb_le; exact X4]. }
      rewrite E1, E2. reflexivity.
Qed.

End Stats.

(* ================================================================== 7. findings and non-vacuity *)

Module SpecSoundExamples.

Definition s1 : sst :=
  {| s_tabs := [Some {| st_m := [(1, 10%Z)]; st_act := false; st_moved := false |}];
     s_its := []; s_order := None; s_imgs := [] |}.
Definition ob (hp mhp : N) : obs :=
  {| o_hp := hp; o_size := 1; o_cap := N.shiftl 1 hp * 4; o_mlfn := 1; o_mlfd := 20; o_mhp := mhp;
     o_act := false; o_dead := false |}.
Definition c0 : config := {| spb := 4; lbits := 16; simple := false; nothrow := true; destructive := false |}.
Definition h0 (k : N) : N := (k * 2654435761)%N.
Notation judge0 := (judge_op fapply_std 4).

(* ---- non-vacuity of soundness / completeness: an accepted insert, the state it leaves *)
Example accepted_insert :
  judge0 s1 0 (OInsert 2 5%Z) [RBool true] (ob 3 3) (ob 3 3)
  = ({| s_tabs := [Some {| st_m := [(2, 5%Z); (1, 10%Z)]; st_act := false; st_moved := false |}];
        s_its := []; s_order := None; s_imgs := [] |}, []).
Proof. vm_compute. reflexivity. Qed.

Example s1_hyps :
  get_st s1 0 = Some {| st_m := [(1, 10%Z)]; st_act := false; st_moved := false |} /\
  srep [(1, 10%Z)] (amap_of [(1, 10%Z)]) /\ is_exn [RBool true] EUnmodelled = false.
Proof.
  split; [reflexivity|]. split; [|reflexivity]. apply srep_amap_of. repeat constructor. intros [].
Qed.

(* the instance of [judge_sound]: the accepted output is the one [op_spec] prescribes *)
Example accepted_insert_sound tb :
  obs_pre tb (ob 3 3) ->
  exists m', op_spec c0 fapply_std tb (amap_of [(1, 10%Z)]) (OInsert 2 5%Z) [RBool true] m' /\
             m' 2 = Some 5%Z /\ m' 1 = Some 10%Z.
Proof.
  intro Hpre. destruct s1_hyps as [Hg [R Hun]].
  destruct (judge_sound c0 fapply_std 4 tb s1 0 _ _ (OInsert 2 5%Z) [RBool true] (ob 3 3) (ob 3 3) _
              eq_refl eq_refl Hpre Hg eq_refl R Hun accepted_insert) as [m' [[t' [Hg' [_ [_ R']]]] Hs]].
  exists m'. split; [exact Hs|]. vm_compute in Hg'. injection Hg' as <-. cbn [st_m] in R'.
  rewrite <- !(proj2 R'). split; reflexivity.
Qed.

(* ---- FORMER FINDINGS W1-W3 (outputs [op_spec] forbids that the acceptor of the first version of
   this file accepted).  Spec.v has been tightened; the same outputs are now BLAMED, and
   [judge_sound] is stated against [op_spec] itself. *)

(* W1: a policy exception of an insert-family call although the key is present *)
Example W1_now_blamed :
  snd (judge0 s1 0 (OInsert 1 5%Z) [RExn EMaxHashpower] (ob 3 3) (ob 3 3)) = [C10_limit] /\
  snd (judge0 s1 0 (OUpsert 1 (FAdd 1) true 5%Z) [RExn ELoadFactorTooLow] (ob 3 3) (ob 3 3)) = [C10_limit].
Proof. split; vm_compute; reflexivity. Qed.

Example W1_forbidden c fapply tb m m' r :
  m 1 = Some 10%Z -> r = [RExn EMaxHashpower] \/ r = [RExn ELoadFactorTooLow] ->
  ~ op_spec c fapply tb m (OInsert 1 5%Z) r m' /\ ~ op_spec c fapply tb m (OUpsert 1 (FAdd 1) true 5%Z) r m'.
Proof.
  intros Hm Hr. split; intro H; cbn [op_spec] in H; unfold ins_spec in H; rewrite Hm in H;
    destruct H as [_ H]; destruct Hr as [-> | ->]; discriminate H.
Qed.

(* ... while the same exception on an ABSENT key is still accepted (as [op_spec] allows) *)
Example absent_key_exn_accepted :
  snd (judge0 s1 0 (OInsert 2 5%Z) [RExn EMaxHashpower] (ob 3 3) (ob 3 3)) = [].
Proof. vm_compute. reflexivity. Qed.

(* W2: rehash(n) with n = the current hashpower throwing maximum_hashpower_exceeded *)
Example W2_now_blamed : snd (judge0 s1 0 (ORehash 3) [RExn EMaxHashpower] (ob 3 3) (ob 3 3)) = [C10_limit].
Proof. vm_compute. reflexivity. Qed.

Example W2_forbidden c fapply tb m m' :
  bhp (cur tb) = 3 -> ~ op_spec c fapply tb m (ORehash 3) [RExn EMaxHashpower] m'.
Proof.
  intros Hb [_ [[b [H _]]|[e [_ [H _]]]]]; [discriminate H|]. apply H. symmetry. exact Hb.
Qed.

Example rehash_exn_accepted : snd (judge0 s1 0 (ORehash 5) [RExn EMaxHashpower] (ob 3 3) (ob 3 3)) = [].
Proof. vm_compute. reflexivity. Qed.

(* W3: the bool returned by reserve(n): reserve(0) on a table of hashpower 0 must return false *)
Example W3_now_blamed :
  snd (judge0 s1 0 (OReserve 0) [RBool true] (ob 0 3) (ob 0 3)) = [C10_limit] /\
  snd (judge0 s1 0 (OReserve 0) [RNone] (ob 0 3) (ob 0 3)) = [C10_limit] /\
  snd (judge0 s1 0 (OReserve 0) [RExn EMaxHashpower] (ob 0 3) (ob 0 3)) = [C10_limit] /\
  snd (judge0 s1 0 (OReserve 0) [RBool false] (ob 0 3) (ob 0 3)) = [] /\
  snd (judge0 s1 0 (OReserve 100) [RBool true] (ob 0 5) (ob 5 5)) = [].
Proof. repeat split; vm_compute; reflexivity. Qed.

Example W3_forbidden fapply tb m m' :
  bhp (cur tb) = 0 ->
  ~ op_spec c0 fapply tb m (OReserve 0) [RBool true] m' /\ ~ op_spec c0 fapply tb m (OReserve 0) [RNone] m'.
Proof.
  intro Hb. assert (X : reserve_calc c0 0 = 0) by (vm_compute; reflexivity).
  split; intros [_ [[b [H Hiff]]|[e [H _]]]]; try discriminate H.
  injection H as <-. rewrite X, Hb in Hiff. destruct Hiff as [_ Hiff]. discriminate (Hiff eq_refl).
Qed.

(* load_factor_too_low needs the load factor STRICTLY below the minimum: 8 elements in 16 slots
   with minimum 1/2 is not below (blamed), 7 elements is (accepted) *)
Definition ob_lf (size : N) : obs :=
  {| o_hp := 2; o_size := size; o_cap := 16; o_mlfn := 1; o_mlfd := 2; o_mhp := NO_MAXIMUM_HASHPOWER;
     o_act := false; o_dead := false |}.

Example equal_load_factor_exception_now_blamed :
  o_size (ob_lf 8) * o_mlfd (ob_lf 8) = o_mlfn (ob_lf 8) * o_cap (ob_lf 8) /\
  snd (judge0 s1 0 (OInsert 2 5%Z) [RExn ELoadFactorTooLow] (ob_lf 8) (ob_lf 8)) = [C10_limit] /\
  snd (judge0 s1 0 (OInsert 2 5%Z) [RExn ELoadFactorTooLow] (ob_lf 7) (ob_lf 7)) = [].
Proof. repeat split; vm_compute; reflexivity. Qed.

(* ---- by design, not findings: (a) an output "exc:<unknown>" is passed unjudged (hypothesis
   [is_exn r EUnmodelled = false] of soundness); (b) RNat n and RInt n are identified (the harness
   never produces RNat; [norm_out]); (c) the model's fuel artefact is blamed although [op_spec]
   allows it (hypothesis [no_fuel] of completeness) *)
Example unmodelled_passed : snd (judge0 s1 0 (OFind 1) [RExn EUnmodelled] (ob 3 3) (ob 3 3)) = [].
Proof. vm_compute. reflexivity. Qed.

Example nat_int_identified : snd (judge0 s1 0 (OFindThrow 1) [RNat 10] (ob 3 3) (ob 3 3)) = [].
Proof. vm_compute. reflexivity. Qed.

Example fuel_blamed c fapply tb m :
  snd (judge0 s1 0 (OInsert 2 5%Z) [RExn EOutOfFuel] (ob 3 3) (ob 3 3)) = [C02_result] /\
  (m 2 = None -> op_spec c fapply tb m (OInsert 2 5%Z) [RExn EOutOfFuel] m).
Proof.
  split; [vm_compute; reflexivity|]. intro Hm. cbn [op_spec]. unfold ins_spec. rewrite Hm.
  left. exists EOutOfFuel. split; [reflexivity|]. split; [intro; reflexivity|]. right. right. reflexivity.
Qed.

(* ---- non-vacuity of the composition: a fresh table of the model, a lookup on it *)
Lemma c0_ok : cfg_ok c0.
Proof. split; cbn; lia. Qed.

Definition t00 : table := new_table c0 0.
Definition w0 : world := {| tabs := [Some {| tb := t00; active := false |}]; its := []; imgs := [] |}.
Definition s0 : sst :=
  {| s_tabs := [Some {| st_m := []; st_act := false; st_moved := false |}]; s_its := []; s_order := None; s_imgs := [] |}.

Example model_lookup_accepted pre post :
  exists s', judge0 s0 0 (OFind 5) (snd (step_some c0 h0 fapply_std w0 0 {| tb := t00; active := false |} (OFind 5))) pre post
             = (s', []).
Proof.
  destruct (good_new_table c0 h0 c0_ok 0) as [G [Hno _]]; [vm_compute; reflexivity|].
  assert (R : rep c0 t00 mempty).
  { intros k v. rewrite (good_lholds c0 h0 t00 k v G). split; [intro H; exfalso; exact (Hno k v H)|discriminate]. }
  destruct (step_some c0 h0 fapply_std w0 0 {| tb := t00; active := false |} (OFind 5)) as [w' r] eqn:E.
  destruct (model_accepted_lookup c0 h0 c0_ok fapply_std 4 w0 0 {| tb := t00; active := false |} (OFind 5) w' r mempty s0
              {| st_m := []; st_act := false; st_moved := false |} pre post
              eq_refl eq_refl (good_lgood c0 h0 t00 G) R E eq_refl eq_refl srep_nil)
    as [t' [m' [s' [_ [_ [_ [_ [Hj _]]]]]]]].
  exists s'. cbn [snd]. exact Hj.
Qed.

End SpecSoundExamples.
