(* C17 - Functors are invoked exactly when documented, with the right context (model level).
   [lookup_fn] is the common body of find_fn / update_fn / erase_fn (and of find, contains,
   update, erase, which the API layer defines as its instances); [g] is the functor: it receives
   the stored value and returns the new value and the erase flag.
   Statements only; closed by [exact] of lemmas of ArrLemmas.v. *)
From Coq Require Import NArith ZArith List Bool.
From LC Require Import gen.HashGen Core Api InvDefs ArrLemmas Stats InsertLemmas Resize Lazy Refine.
Import ListNotations.
Local Open Scope N_scope. Local Open Scope bool_scope.

(* key absent: the functor is not invoked (the result carries no value), the table is unchanged *)
Theorem C17_absent_key_functor_not_invoked :
  forall c hash mode t k g, settled c hash t -> ~ key_in (cur t) k -> lookup_fn c hash mode t k g = (t, None).
Proof. exact lookup_fn_absent. Qed.
Print Assumptions C17_absent_key_functor_not_invoked.

(* key present: the functor is applied exactly once, to the stored value of exactly that key;
   the element is erased iff the functor returned true, otherwise it holds the functor's result;
   every other key is untouched *)
Theorem C17_present_key_functor_applied_once :
  forall c hash mode t k g v, settled c hash t -> holds (cur t) k v ->
  exists t', lookup_fn c hash mode t k g = (t', Some v) /\ settled c hash t' /\ bhp (cur t') = bhp (cur t) /\
    forall k' v', holds (cur t') k' v' <->
      (k' <> k /\ holds (cur t) k' v') \/ (k' = k /\ snd (g v) = false /\ v' = fst (g v)).
Proof. exact lookup_fn_present. Qed.
Print Assumptions C17_present_key_functor_applied_once.

(* InvokeUpraseFn: a one-argument functor is never invoked for a newly inserted element; a
   two-argument functor always is, with the context that matches what happened *)
Theorem C17_one_argument_functor_skipped_when_newly_inserted :
  forall fapply f keep v, invoke fapply f false keep v true = None.
Proof. reflexivity. Qed.

Theorem C17_two_argument_functor_gets_context :
  forall fapply f keep v newly,
  invoke fapply f true keep v newly = Some (fst (fapply f v newly), keep && snd (fapply f v newly)).
Proof. intros. unfold invoke. cbn. destruct (fapply f v newly). reflexivity. Qed.

Theorem C17_existing_element_functor_invoked :
  forall fapply f two keep v,
  invoke fapply f two keep v false = Some (fst (fapply f v false), keep && snd (fapply f v false)).
Proof. intros. unfold invoke. rewrite Bool.andb_false_r. destruct (fapply f v false). reflexivity. Qed.
(* ---- generated statements (tools/mkprops.py): upsert / uprase_fn (Refine.v) ---- *)
(* [log_of g v ins] = [] if the functor was not invoked, [RFn v ins] (stored value, context) otherwise;
   [final_of g v ins] = what the key maps to afterwards (None = erased because the functor returned true). *)

Theorem C17_upsert_uprase_functor_log_and_effect :
  forall (c : config) (hash : N -> N),
  cfg_ok c ->
  forall (mode : bool) (t : table) (k : N) (v : Z) (g : Z -> bool -> option (Z * bool)),
  nothrow c = true ->
  good c hash t ->
  immediate c mode t ->
  forall (t' : table) (r : exn + bool * list rv * (N * N)),
  uprase_gen c hash mode t k v g = (t', r) ->
  (forall v0 : Z,
  holds (cur t) k v0 ->
  exists b s : N,
  r = inr (false, log_of g v0 false, (b, s)) /\
  good c hash t' /\
  lim_same t t' /\
  immediate c mode t' /\
  bhp (cur t') = bhp (cur t) /\
  upd_holds (cur t) (cur t') k (final_of g v0 false) /\
  (forall vf : Z,
  final_of g v0 false = Some vf ->
  exists e : entry, bget (cur t') b s = Some e /\ ekey e = k /\ eval e = vf)) /\
  (~ key_in (cur t) k ->
  esc c hash t \/
  (exists e : exn, r = inl e /\ exn_ok c true t t' e /\ evolves c hash t t' /\ immediate c mode t') \/
  (exists b s : N,
  r = inr (true, log_of g v true, (b, s)) /\
  good c hash t' /\
  lim_same t t' /\
  immediate c mode t' /\
  bhp (cur t) <= bhp (cur t') /\
  upd_holds (cur t) (cur t') k (final_of g v true) /\
  (forall vf : Z,
  final_of g v true = Some vf ->
  exists e : entry, bget (cur t') b s = Some e /\ ekey e = k /\ eval e = vf))).
Proof. exact uprase_gen_good. Qed.
Print Assumptions C17_upsert_uprase_functor_log_and_effect.

(* ---- functor invocation through deferred migration (LazyRefine.v) ---- *)
From LC Require Import LazyRefine.
Theorem C17_lookup_functor_through_deferred_migration :
  forall (c : config) (hash : N -> N),
  cfg_ok c ->
  forall (t : table) (k : N) (g : Z -> Z * bool),
  lgood c hash t ->
  forall (t' : table) (r : option Z),
  lookup_fn c hash false t k g = (t', r) ->
  lgood c hash t' /\
  lim_same t t' /\
  bhp (cur t') = bhp (cur t) /\
  ((forall v : Z, ~ lholds c t k v) /\ r = None /\ levolves c hash t t' \/
  (exists v0 : Z,
  lholds c t k v0 /\ r = Some v0 /\ lupd c t t' k (if snd (g v0) then None else Some (fst (g v0))))).
Proof. exact lookup_fn_lgood. Qed.
Print Assumptions C17_lookup_functor_through_deferred_migration.

Theorem C17_upsert_functor_through_deferred_migration :
  forall (c : config) (hash : N -> N),
  cfg_ok c ->
  forall (t : table) (k : N) (v : Z) (g : Z -> bool -> option (Z * bool)),
  nothrow c = true ->
  lgood c hash t ->
  forall (t' : table) (r : exn + bool * list rv * (N * N)),
  uprase_gen c hash false t k v g = (t', r) ->
  (forall v0 : Z,
  lholds c t k v0 ->
  exists b s : N,
  r = inr (false, log_of g v0 false, (b, s)) /\
  lgood c hash t' /\
  lim_same t t' /\
  bhp (cur t') = bhp (cur t) /\
  lupd c t t' k (final_of g v0 false) /\
  (forall vf : Z,
  final_of g v0 false = Some vf ->
  exists e : entry, bget (cur t') b s = Some e /\ ekey e = k /\ eval e = vf)) /\
  ((forall v0 : Z, ~ lholds c t k v0) ->
  lesc c hash t \/
  (exists e : exn, r = inl e /\ exn_ok c true t t' e /\ levolves c hash t t') \/
  (exists b s : N,
  r = inr (true, log_of g v true, (b, s)) /\
  lgood c hash t' /\
  lim_same t t' /\
  bhp (cur t) <= bhp (cur t') /\
  lupd c t t' k (final_of g v true) /\
  (forall vf : Z,
  final_of g v true = Some vf ->
  exists e : entry, bget (cur t') b s = Some e /\ ekey e = k /\ eval e = vf))).
Proof. exact uprase_gen_lgood. Qed.
Print Assumptions C17_upsert_functor_through_deferred_migration.

(* ---- run-tied form (RunTied.v) ---- *)
From LC Require Import AcceptModel RunTied.
Theorem C17_upsert_functor_tied :
  forall (c : config) (hash : N -> N),
  cfg_ok c ->
  forall (t : table) (k : N) (v : Z) (g : Z -> bool -> option (Z * bool)),
  nothrow c = true ->
  lgood c hash t ->
  forall (t' : table) (r : exn + bool * list rv * (N * N)),
  uprase_gen c hash false t k v g = (t', r) ->
  (forall v0 : Z,
  lholds c t k v0 ->
  exists b s : N,
  r = inr (false, log_of g v0 false, (b, s)) /\
  lgood c hash t' /\
  lim_same t t' /\
  bhp (cur t') = bhp (cur t) /\
  lupd c t t' k (final_of g v0 false) /\
  (forall vf : Z,
  final_of g v0 false = Some vf ->
  exists e : entry, bget (cur t') b s = Some e /\ ekey e = k /\ eval e = vf)) /\
  ((forall v0 : Z, ~ lholds c t k v0) ->
  tied_esc t' \/
  (exists e : exn, r = inl e /\ exn_ok c true t t' e /\ levolves c hash t t') \/
  (exists b s : N,
  r = inr (true, log_of g v true, (b, s)) /\
  lgood c hash t' /\
  lim_same t t' /\
  bhp (cur t) <= bhp (cur t') /\
  lupd c t t' k (final_of g v true) /\
  (forall vf : Z,
  final_of g v true = Some vf ->
  exists e : entry, bget (cur t') b s = Some e /\ ekey e = k /\ eval e = vf))).
Proof. exact uprase_gen_lgood_tied. Qed.
Print Assumptions C17_upsert_functor_tied.
