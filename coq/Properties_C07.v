(* C07 - failure atomicity: the part the model can carry.
   The model has no allocator, constructors or throwing user code, so the clauses "the k-th allocation
   fails", "hash / equality / constructor throws" are decided by enumeration of fault positions on the
   real library (harness/seq.cc --faults; see DESIGN 6.7) - NOT by these theorems.
   Proved here: every exception the model can raise (the two policy exceptions) is raised before any
   modification or leaves the contents and limits unchanged ([evolves t t']: good, equal contents, equal
   limits) - for the insert family, rebuild, rehash and reserve; a failed rehash/reserve keeps the
   hashpower (for non-destructive moves; the destructive case is the recorded finding).
   Statements only; closed by [exact] of lemmas of Refine.v / Stats.v. *)
From Coq Require Import NArith ZArith List.
From LC Require Import gen.HashGen Core Api InvDefs ArrLemmas Stats InsertLemmas Resize Lazy Refine.
Import ListNotations.
Local Open Scope N_scope.

Theorem C07_doubling_fails_before_any_change :
  forall (c : config) (hash : N -> N),
  cfg_ok c ->
  forall (mode : bool) (t : table),
  nothrow c = true ->
  good c hash t ->
  immediate c mode t ->
  let hp := bhp (cur t) in
  (maxed t (hp + 1) -> cuckoo_fast_double c hash mode t hp = (t, inl EMaxHashpower)) /\
  (~ maxed t (hp + 1) ->
  lf_lt_mlf c t = true -> cuckoo_fast_double c hash mode t hp = (t, inl ELoadFactorTooLow)) /\
  (~ maxed t (hp + 1) ->
  lf_lt_mlf c t = false ->
  exists t' : table,
  cuckoo_fast_double c hash mode t hp = (t', inr St_ok) /\
  (hp + 1 < 60 ->
  good c hash t' /\
  bhp (cur t') = hp + 1 /\
  (forall (k : N) (v : Z), holds (cur t') k v <-> holds (cur t) k v) /\
  lim_same t t' /\ immediate c mode t' /\ rc t' = wrap64 (rc t + 1) /\ nrem t' = 0)).
Proof. exact cuckoo_fast_double_good. Qed.
Print Assumptions C07_doubling_fails_before_any_change.

Theorem C07_insert_family_exception_leaves_contents :
  forall (c : config) (hash : N -> N),
  cfg_ok c ->
  forall (mode : bool) (t : table) (k : N) (v : Z) (g : Z -> bool -> option (Z * bool)),
  nothrow c = true ->
  good c hash t ->
  immediate c mode t ->
  forall (t' : table) (r : exn + bool * list rv * (N * N)),
  uprase_gen c hash mode t k v g = (t', r) ->
  (forall v0 : Z,
  holds (cur t) k v0 ->
  exists b s : N,
  r = inr (false, log_of g v0 false, (b, s)) /\
  good c hash t' /\
  lim_same t t' /\
  immediate c mode t' /\
  bhp (cur t') = bhp (cur t) /\
  upd_holds (cur t) (cur t') k (final_of g v0 false) /\
  (forall vf : Z,
  final_of g v0 false = Some vf ->
  exists e : entry, bget (cur t') b s = Some e /\ ekey e = k /\ eval e = vf)) /\
  (~ key_in (cur t) k ->
  esc c hash t \/
  (exists e : exn, r = inl e /\ exn_ok c true t t' e /\ evolves c hash t t' /\ immediate c mode t') \/
  (exists b s : N,
  r = inr (true, log_of g v true, (b, s)) /\
  good c hash t' /\
  lim_same t t' /\
  immediate c mode t' /\
  bhp (cur t) <= bhp (cur t') /\
  upd_holds (cur t) (cur t') k (final_of g v true) /\
  (forall vf : Z,
  final_of g v true = Some vf ->
  exists e : entry, bget (cur t') b s = Some e /\ ekey e = k /\ eval e = vf))).
Proof. exact uprase_gen_good. Qed.
Print Assumptions C07_insert_family_exception_leaves_contents.

Theorem C07_failed_rebuild_leaves_contents :
  forall (c : config) (hash : N -> N),
  cfg_ok c ->
  forall (auto mode : bool) (t : table) (new_hp : N),
  good c hash t ->
  limC c (mhp t) ->
  let r := cuckoo_expand_simple c hash auto mode t new_hp in
  (maxed t new_hp -> r = (t, inl EMaxHashpower)) /\
  (~ maxed t new_hp -> auto = true -> lf_lt_mlf c t = true -> r = (t, inl ELoadFactorTooLow)) /\
  es_post c hash auto t new_hp r.
Proof. exact cuckoo_expand_simple_good. Qed.
Print Assumptions C07_failed_rebuild_leaves_contents.

Theorem C07_failed_rehash_keeps_hashpower :
  forall (c : config) (hash : N -> N),
  cfg_ok c ->
  forall (mode : bool) (t : table) (n : N),
  good c hash t ->
  limC c (mhp t) ->
  forall (t' : table) (r : exn + bool),
  cuckoo_rehash c hash mode t n = (t', r) ->
  (r = inr false <-> n = bhp (cur t)) /\
  (r = inr false -> t' = t) /\
  (r = inr true ->
  good c hash t' /\
  (forall (k : N) (v : Z), holds (cur t') k v <-> holds (cur t) k v) /\
  lim_same t t' /\ n <= bhp (cur t') /\ rc t' = wrap64 (rc t + 1) /\ ~ maxed t n) /\
  (forall e : exn,
  r = inl e ->
  n <> bhp (cur t) /\
  exn_ok0 false t e /\
  e <> ELoadFactorTooLow /\
  (maxed t n -> t' = t /\ e = EMaxHashpower) /\
  (destructive c = false -> evolves c hash t t' /\ bhp (cur t') = bhp (cur t))).
Proof. exact cuckoo_rehash_good. Qed.
Print Assumptions C07_failed_rehash_keeps_hashpower.

Theorem C07_failed_reserve_keeps_hashpower :
  forall (c : config) (hash : N -> N),
  cfg_ok c ->
  forall (mode : bool) (t : table) (n : N),
  good c hash t ->
  limC c (mhp t) ->
  forall (t' : table) (r : exn + bool),
  cuckoo_reserve c hash mode t n = (t', r) ->
  let new_hp := reserve_calc c n in
  (r = inr false <-> new_hp = bhp (cur t)) /\
  (r = inr false -> t' = t) /\
  (r = inr true ->
  good c hash t' /\
  (forall (k : N) (v : Z), holds (cur t') k v <-> holds (cur t) k v) /\
  lim_same t t' /\
  new_hp <= bhp (cur t') /\
  rc t' = wrap64 (rc t + 1) /\
  ~ maxed t new_hp /\ (n + spb c < 2 ^ 64 -> n <= 2 ^ bhp (cur t') * spb c)) /\
  (forall e : exn,
  r = inl e ->
  new_hp <> bhp (cur t) /\
  exn_ok0 false t e /\
  e <> ELoadFactorTooLow /\
  (maxed t new_hp -> t' = t /\ e = EMaxHashpower) /\
  (destructive c = false -> evolves c hash t t' /\ bhp (cur t') = bhp (cur t))).
Proof. exact cuckoo_reserve_good. Qed.
Print Assumptions C07_failed_reserve_keeps_hashpower.

Theorem C07_validity_checked_first :
  forall (c : config) (auto : bool) (t : table) (o n : N),
  check_resize_validity c auto t o n = inl (Some EMaxHashpower) \/
  check_resize_validity c auto t o n = inl (Some ELoadFactorTooLow) \/
  check_resize_validity c auto t o n = inr St_under_expansion \/
  check_resize_validity c auto t o n = inr St_ok.
Proof. exact crv_cases. Qed.
Print Assumptions C07_validity_checked_first.

(* ---- allocation failure inside a resize leaves the table untouched, as an order-of-effects argument about the effect sequences read off the source on every run (gen/EffectOrder.v, Effects.v): no failing opportunity follows the first publication ---- *)
From LC Require Import gen.EffectOrder Effects.
Theorem C07_safe_order_is_failure_atomic :
  forall effs : list effect,
  safe_order effs = true -> forall (k : nat) (b : bool), run effs k false = Some b -> b = false.
Proof. exact safe_order_failure_atomic. Qed.
Print Assumptions C07_safe_order_is_failure_atomic.

Theorem C07_doubling_order_is_safe :
  safe_order fast_double_effects = true.
Proof. exact fast_double_order_safe. Qed.
Print Assumptions C07_doubling_order_is_safe.

Theorem C07_doubling_failure_publishes_nothing :
  forall (k : nat) (b : bool), run fast_double_effects k false = Some b -> b = false.
Proof. exact fast_double_failure_atomic. Qed.
Print Assumptions C07_doubling_failure_publishes_nothing.

Theorem C07_rebuild_order_is_safe :
  safe_order expand_simple_effects = true.
Proof. exact expand_simple_order_safe. Qed.
Print Assumptions C07_rebuild_order_is_safe.

Theorem C07_rebuild_failure_publishes_nothing :
  forall (k : nat) (b : bool), run expand_simple_effects k false = Some b -> b = false.
Proof. exact expand_simple_failure_atomic. Qed.
Print Assumptions C07_rebuild_failure_publishes_nothing.

Theorem C07_unsafe_order_has_a_failing_position :
  forall (effs : list effect) (p : bool),
  no_fail_after_publish effs p = false -> exists k : nat, run effs k p = Some true.
Proof. exact unsafe_has_witness. Qed.
Print Assumptions C07_unsafe_order_has_a_failing_position.
