(* L1 proofs: storage lifetime.
   - the superseded bucket array (old_buckets_) is released exactly when the counter of
     remaining stripes reaches zero, i.e. in the very step that migrates the last stripe;
   - every path that abandons a deferred migration (lock, clear, the next doubling, move,
     destruction) releases it;
   - no moved-from element (husk) is ever reachable as a live element, neither in the current
     array nor in a still-pending bucket of the old array. *)
From Coq Require Import NArith ZArith List Bool Lia FMapPositive.
From LC Require Import gen.HashGen Bits Core Api InvDefs ArrLemmas Stats Resize InsertLemmas Lazy.
Import ListNotations.
Local Open Scope N_scope.

(* ================================================================== 1. the counter and the old array *)

Lemma old_freed_when_counter_zero t :
  bdead (old (set_nrem t 0)) = true /\ nrem (set_nrem t 0) = 0 /\
  forall b s, bget (old (set_nrem t 0)) b s = None.
Proof. split; [reflexivity|]. split; [reflexivity|]. intros b s. apply bget_bdealloc. Qed.

Lemma old_kept_when_counter_nonzero t n : n <> 0 -> old (set_nrem t n) = old t.
Proof. intro H. rewrite set_nrem_nonzero by exact H. reflexivity. Qed.

Lemma decrement_nrem_last t :
  nrem t = 1 ->
  bdead (old (decrement_nrem t)) = true /\ nrem (decrement_nrem t) = 0 /\
  forall b s, bget (old (decrement_nrem t)) b s = None.
Proof.
  intro H. unfold decrement_nrem. rewrite H. cbn [N.eqb Pos.eqb].
  split; [reflexivity|]. split; [reflexivity|]. intros b s. apply bget_bdealloc.
Qed.

Lemma decrement_nrem_not_last t :
  nrem t <> 1 -> old (decrement_nrem t) = old t.
Proof.
  intro H. unfold decrement_nrem. apply N.eqb_neq in H. rewrite H. reflexivity.
Qed.

Lemma decrement_nrem_value t :
  0 < nrem t < 2 ^ 64 -> nrem (decrement_nrem t) = nrem t - 1.
Proof.
  intros [H0 H1]. change (2 ^ 64) with 18446744073709551616 in H1.
  assert (E : nrem (decrement_nrem t) = wrap64 (nrem t + 18446744073709551616 - 1)).
  { unfold decrement_nrem. destruct (nrem t =? 1); reflexivity. }
  rewrite E. unfold wrap64, wrap. change (2 ^ 64) with 18446744073709551616.
  replace (nrem t + 18446744073709551616 - 1) with (nrem t - 1 + 1 * 18446744073709551616) by lia.
  rewrite N.mod_add by lia. apply N.mod_small. lia.
Qed.

Lemma decrement_nrem_other t :
  cur (decrement_nrem t) = cur t /\ locks (decrement_nrem t) = locks t /\
  rc (decrement_nrem t) = rc t /\ mlfn (decrement_nrem t) = mlfn t /\ mlfd (decrement_nrem t) = mlfd t /\
  mhp (decrement_nrem t) = mhp t /\ workers (decrement_nrem t) = workers t.
Proof. unfold decrement_nrem. destruct (nrem t =? 1); repeat split. Qed.

(* ================================================================== 2. release at the last stripe *)

Lemma unmig_count_all_migrated la : (forall x, In x la -> mig x = true) -> unmig_count la = O.
Proof.
  unfold unmig_count. induction la as [|x r IH]; intro H; [reflexivity|].
  cbn [filter]. rewrite (H x (or_introl eq_refl)). cbn [negb]. apply IH.
  intros y Hy. apply H. right. exact Hy.
Qed.

Section Life.
Variable c : config.
Variable hash : N -> N.
Hypothesis Hc : cfg_ok c.

Notation wf := (wf c hash).
Notation wfg := (wfg c hash).

(* what the strict invariant says about the old array *)
Theorem wf_old_alive t :
  wf t ->
  all_migrated t \/
  (bdead (old t) = false /\ nrem t = N.of_nat (unmig_count (cur_locks t)) /\
   bhp (cur t) = bhp (old t) + 1 /\ length (cur_locks t) = N.to_nat (kmax c)).
Proof.
  intros [_ _ _ [H|[X1 X2 X3 X4 X5]]]; [left; exact H|right].
  split; [exact X2|]. split; [apply X5; reflexivity|]. split; assumption.
Qed.

Lemma mbs_bhp_old n : forall oldb newb obi ns s,
  bhp (fst (move_bucket_slots c hash oldb newb obi ns s n)) = bhp oldb.
Proof.
  induction n as [|n IH]; intros oldb newb obi ns s; cbn [move_bucket_slots]; [reflexivity|].
  destruct (bget oldb obi s) as [e|]; [|apply IH]. cbv zeta. rewrite IH. reflexivity.
Qed.

(* the bucket loop of one stripe touches neither the scalars, nor the lock list, nor the
   liveness of the old array *)
Lemma rll_meta n : forall t bi,
  same_meta t (rehash_lock_loop c hash t bi n) /\
  bdead (old (rehash_lock_loop c hash t bi n)) = bdead (old t) /\
  bhp (old (rehash_lock_loop c hash t bi n)) = bhp (old t).
Proof.
  induction n as [|n IH]; intros t bi; cbn [rehash_lock_loop].
  - split; [apply same_meta_refl|]. split; reflexivity.
  - destruct (bi <? hashsize (bhp (old t))).
    + destruct (move_bucket_proj c hash t bi) as [E1 [_ S1]].
      destruct (IH (move_bucket c hash t bi) (bi + kmax c)) as [S2 [B2 H2]].
      split; [apply (same_meta_trans _ (move_bucket c hash t bi)); assumption|].
      split.
      * rewrite B2, E1. apply mbs_bdead_old.
      * rewrite H2, E1. apply mbs_bhp_old.
    + split; [apply same_meta_refl|]. split; reflexivity.
Qed.

(* an un-migrated stripe is a stripe of the lock array *)
Lemma unmig_in_range t l :
  mig (lock_at t l) = false -> (N.to_nat l < length (cur_locks t))%nat.
Proof.
  intro Em. destruct (Nat.lt_ge_cases (N.to_nat l) (length (cur_locks t))) as [L|G]; [exact L|].
  rewrite (lock_at_out t l G) in Em. discriminate.
Qed.

Lemma unmig_count_pos t l : mig (lock_at t l) = false -> (1 <= unmig_count (cur_locks t))%nat.
Proof.
  intro Em. assert (H := unmig_count_upd (cur_locks t) (N.to_nat l) (unmig_in_range t l Em) Em). lia.
Qed.

(* the lock array after rehash_lock on an un-migrated stripe *)
Lemma rehash_lock_cur_locks s t l :
  locks t <> [] -> mig (lock_at t l) = false ->
  cur_locks (rehash_lock c hash s t l) = upd (N.to_nat l) set_mig (cur_locks t).
Proof.
  intros Hne Em. unfold rehash_lock. rewrite Em.
  set (t1 := rehash_lock_loop c hash t l _).
  destruct (rll_meta (N.to_nat (hashsize (bhp (old t)) / kmax c + 1)) t l) as [[S1 _] _]. fold t1 in S1.
  set (t2 := upd_cur_lock t1 l _).
  assert (E2 : cur_locks t2 = upd (N.to_nat l) set_mig (cur_locks t)).
  { unfold t2. rewrite st_cur_locks_upd_cur_lock by (rewrite S1; exact Hne).
    rewrite (cur_locks_locks t t1 S1). reflexivity. }
  destruct s; [|exact E2].
  rewrite <- E2. apply cur_locks_locks. apply decrement_nrem_other.
Qed.

(* the old array and the counter after rehash_lock (lazy) on an un-migrated stripe *)
Lemma rehash_lock_old_nrem t l :
  mig (lock_at t l) = false ->
  let t' := rehash_lock c hash true t l in
  (nrem t = 1 -> bdead (old t') = true /\ nrem t' = 0) /\
  (nrem t <> 1 -> bdead (old t') = bdead (old t)).
Proof.
  intros Em t'. subst t'. unfold rehash_lock. rewrite Em.
  set (t1 := rehash_lock_loop c hash t l _).
  destruct (rll_meta (N.to_nat (hashsize (bhp (old t)) / kmax c + 1)) t l) as [[_ [S1 _]] [B1 _]].
  fold t1 in S1, B1.
  set (t2 := upd_cur_lock t1 l _).
  assert (N2 : nrem t2 = nrem t) by exact S1.
  split.
  - intro H1. destruct (decrement_nrem_last t2) as [D1 [D2 _]]; [congruence|]. split; assumption.
  - intro H1. rewrite decrement_nrem_not_last by congruence. exact B1.
Qed.

(* THE LAST STRIPE: the step that migrates it releases the old array and zeroes the counter *)
Theorem last_stripe_releases t l :
  wf t -> mig (lock_at t l) = false -> unmig_count (cur_locks t) = 1%nat ->
  let t' := rehash_lock c hash true t l in
  bdead (old t') = true /\ nrem t' = 0 /\ all_migrated t' /\
  (forall b s, bget (old t') b s = None) /\
  wf t' /\ settled c hash t'.
Proof.
  intros W Em Hu t'.
  destruct (wf_old_alive t W) as [Hall|[A1 [A2 _]]].
  { rewrite (lock_at_mig t l Hall) in Em. discriminate. }
  assert (Hn : nrem t = 1) by (rewrite A2, Hu; reflexivity).
  destruct (rehash_lock_old_nrem t l Em) as [R _]. destruct (R Hn) as [B1 B2]. fold t' in B1, B2.
  destruct (rehash_lock_wf c hash Hc true t l W) as [W' _]. cbv zeta in W'. fold t' in W'.
  assert (Hall : all_migrated t').
  { destruct (wf_lazy _ _ _ _ W') as [H|X]; [exact H|].
    rewrite (lx_old_alive _ _ _ X) in B1. discriminate. }
  split; [exact B1|]. split; [exact B2|]. split; [exact Hall|].
  split.
  { intros b s. unfold t', rehash_lock. rewrite Em.
    apply decrement_nrem_last.
    destruct (rll_meta (N.to_nat (hashsize (bhp (old t)) / kmax c + 1)) t l) as [[_ [S1 _]] _].
    cbn [nrem upd_cur_lock set_locks]. rewrite S1. exact Hn. }
  split; [exact W'|]. apply (wfg_settled c hash true); assumption.
Qed.

(* NOT EARLIER: while another stripe is still pending the old array stays allocated *)
Theorem earlier_stripe_keeps t l :
  wf t -> mig (lock_at t l) = false -> (1 < unmig_count (cur_locks t))%nat ->
  let t' := rehash_lock c hash true t l in
  bdead (old t') = false /\
  S (unmig_count (cur_locks t')) = unmig_count (cur_locks t) /\
  nrem t' = N.of_nat (unmig_count (cur_locks t')) /\ nrem t' <> 0 /\
  ~ all_migrated t' /\ wf t'.
Proof.
  intros W Em Hu t'.
  destruct (wf_old_alive t W) as [Hall|[A1 [A2 _]]].
  { rewrite (lock_at_mig t l Hall) in Em. discriminate. }
  assert (Hn : nrem t <> 1) by (rewrite A2; lia).
  destruct (rehash_lock_old_nrem t l Em) as [_ R]. assert (B1 := R Hn). fold t' in B1.
  destruct (rehash_lock_wf c hash Hc true t l W) as [W' _]. cbv zeta in W'. fold t' in W'.
  assert (Hcl : cur_locks t' = upd (N.to_nat l) set_mig (cur_locks t)).
  { apply rehash_lock_cur_locks; [apply (wf_locks _ _ _ _ W)|exact Em]. }
  assert (Hcnt : S (unmig_count (cur_locks t')) = unmig_count (cur_locks t)).
  { rewrite Hcl. apply unmig_count_upd; [apply unmig_in_range; exact Em|exact Em]. }
  assert (Hnall : ~ all_migrated t').
  { intro H. rewrite (unmig_count_all_migrated _ H) in Hcnt. lia. }
  split; [congruence|]. split; [exact Hcnt|].
  destruct (wf_lazy _ _ _ _ W') as [H|X]; [contradiction|].
  assert (Hnr := lx_nrem _ _ _ X eq_refl).
  split; [exact Hnr|]. split; [rewrite Hnr; lia|]. split; assumption.
Qed.

(* a stripe that is already migrated: rehash_lock is the identity *)
Lemma rehash_lock_migrated s t l : mig (lock_at t l) = true -> rehash_lock c hash s t l = t.
Proof. intro H. unfold rehash_lock. rewrite H. reflexivity. Qed.

(* "released as soon as the last stripe has migrated" as an invariant: once every stripe is
   migrated the old array is gone.  It is preserved by every lazy stripe migration. *)
Definition old_released (t : table) : Prop := all_migrated t -> bdead (old t) = true.

Theorem rehash_lock_old_released t l :
  wf t -> old_released t -> old_released (rehash_lock c hash true t l).
Proof.
  intros W R. destruct (mig (lock_at t l)) eqn:Em.
  - rewrite rehash_lock_migrated by exact Em. exact R.
  - assert (Hp := unmig_count_pos t l Em).
    destruct (Nat.eq_dec (unmig_count (cur_locks t)) 1) as [E|NE].
    + intros _. apply (last_stripe_releases t l W Em E).
    + intro Hall. exfalso.
      destruct (earlier_stripe_keeps t l W Em ltac:(lia)) as [_ [_ [_ [_ [Hn _]]]]]. exact (Hn Hall).
Qed.

(* ================================================================== 3. no moved-from element is live *)

(* the current array never contains a husk *)
Theorem cur_never_husk s t b s0 e :
  wfg s t -> bget (cur t) b s0 = Some e -> ehusk e = false.
Proof.
  intros W H. apply (ao_live _ _ _ (li_arr _ _ _ _ _ (wf_inv _ _ _ _ W)) b s0 e H).
Qed.

Corollary settled_never_husk t b s0 e :
  settled c hash t -> bget (cur t) b s0 = Some e -> ehusk e = false.
Proof. intros St. apply (cur_never_husk true). apply settled_wfg. exact St. Qed.

(* [linv] (Lazy.v) constrains position, tag and key-uniqueness of the elements of pending old
   buckets but says nothing about their [ehusk] flag.  The missing fact is stated here as a
   separate invariant and proved to be established by the deferring doubling and preserved by
   stripe migration. *)
Definition old_live (t : table) : Prop :=
  forall b s e, pendb c t b = true -> bget (old t) b s = Some e -> ehusk e = false.

Lemma old_live_all_migrated t : all_migrated t -> old_live t.
Proof. intros H b s e Hp. rewrite (pendb_all_migrated c t b H) in Hp. discriminate. Qed.

(* move_bucket only writes bucket [obi] of the old array *)
Lemma mbs_old_other n : forall oldb newb obi ns s b s0,
  b <> obi ->
  bget (fst (move_bucket_slots c hash oldb newb obi ns s n)) b s0 = bget oldb b s0.
Proof.
  induction n as [|n IH]; intros oldb newb obi ns s b s0 Hb; cbn [move_bucket_slots]; [reflexivity|].
  destruct (bget oldb obi s) as [e|]; [|apply IH; exact Hb].
  cbv zeta. rewrite IH by exact Hb. apply st_bget_bset_other. intro E. apply Hb. congruence.
Qed.

Lemma rll_old_other n : forall t bi b s0,
  b mod kmax c <> bi mod kmax c ->
  bget (old (rehash_lock_loop c hash t bi n)) b s0 = bget (old t) b s0.
Proof.
  induction n as [|n IH]; intros t bi b s0 Hb; cbn [rehash_lock_loop]; [reflexivity|].
  destruct (bi <? hashsize (bhp (old t))); [|reflexivity].
  rewrite IH.
  - destruct (move_bucket_proj c hash t bi) as [E1 _]. rewrite E1. apply mbs_old_other.
    intro E. apply Hb. rewrite E. reflexivity.
  - assert (Hk := kmax_pos c).
    replace (bi + kmax c) with (bi + 1 * kmax c) by lia. rewrite N.mod_add by lia. exact Hb.
Qed.

(* a bucket of another stripe is either untouched or gone with the whole array *)
Lemma rehash_lock_old_frame s t l b s0 e :
  b mod kmax c <> l mod kmax c ->
  bget (old (rehash_lock c hash s t l)) b s0 = Some e -> bget (old t) b s0 = Some e.
Proof.
  intros Hb. unfold rehash_lock. destruct (mig (lock_at t l)); [auto|].
  set (t1 := rehash_lock_loop c hash t l _).
  assert (F : bget (old t1) b s0 = bget (old t) b s0) by (apply rll_old_other; exact Hb).
  set (t2 := upd_cur_lock t1 l _).
  destruct s.
  - unfold decrement_nrem. destruct (nrem t2 =? 1).
    + cbn [old set_old]. rewrite bget_bdealloc. discriminate.
    + cbn [old set_nrem_raw]. change (old t2) with (old t1). rewrite F. auto.
  - change (old t2) with (old t1). rewrite F. auto.
Qed.

Theorem rehash_lock_old_live s t l :
  wfg s t -> old_live t -> old_live (rehash_lock c hash s t l).
Proof.
  intros W L. destruct (mig (lock_at t l)) eqn:Em.
  { rewrite rehash_lock_migrated by exact Em. exact L. }
  destruct (rehash_lock_wf c hash Hc s t l W) as [_ [_ [_ [M1 [M2 [_ [_ [Ho _]]]]]]]].
  cbv zeta in M1, M2, Ho.
  set (t' := rehash_lock c hash s t l) in *.
  assert (Hl : l < kmax c).
  { assert (H := unmig_in_range t l Em).
    destruct (wf_lazy _ _ _ _ W) as [Hall|X].
    - rewrite (lock_at_mig t l Hall) in Em. discriminate.
    - rewrite (lx_len _ _ _ X) in H. lia. }
  intros b s0 e Hp He.
  apply pendb_true in Hp. destruct Hp as [Hr Hm].
  assert (Hne : b mod kmax c <> l).
  { intro E. rewrite E in Hm. congruence. }
  apply (L b s0 e).
  - apply pendb_true. split; [rewrite <- Ho; exact Hr|]. rewrite <- (M2 _ Hne). exact Hm.
  - apply (rehash_lock_old_frame s t l b s0 e); [|exact He]. rewrite (N.mod_small l) by exact Hl. exact Hne.
Qed.

(* the deferring doubling keeps the previous (husk-free) current array as the old array *)
Theorem fast_double_body_deferred_old_live t :
  settled c hash t -> counted c t -> bhp (cur t) + 1 < 62 ->
  kmax c <= hashsize (bhp (cur t)) -> (length (cur_locks t) <= N.to_nat (kmax c))%nat ->
  old_live (fast_double_body c hash false t (bhp (cur t) + 1)).
Proof.
  intros St Hcnt Hhp Hbig Hlen.
  destruct (fast_double_body_deferred c hash Hc t St Hcnt Hhp Hbig Hlen)
    as [_ [_ [_ [_ [_ [_ [_ [_ [_ [_ [_ [Ho _]]]]]]]]]]]].
  cbv zeta in Ho. intros b s e _ He. rewrite Ho in He.
  apply (ao_live _ _ _ (se_arr _ _ _ St) b s e He).
Qed.

(* consequently every element of the abstract contents is backed by a live (non-husk) entry *)
Theorem lholds_live s t k v :
  wfg s t -> old_live t -> lholds c t k v ->
  exists e, ekey e = k /\ eval e = v /\ ehusk e = false /\
    ((exists b s0, bget (cur t) b s0 = Some e) \/
     (exists b s0, pendb c t b = true /\ bget (old t) b s0 = Some e)).
Proof.
  intros W L [[b [s0 [e [E [K V]]]]]|[b [s0 [e [P [E [K V]]]]]]]; exists e.
  - split; [exact K|]. split; [exact V|]. split; [apply (cur_never_husk s t b s0 e W E)|].
    left. exists b, s0. exact E.
  - split; [exact K|]. split; [exact V|]. split; [apply (L b s0 e P E)|].
    right. exists b, s0. split; assumption.
Qed.

End Life.

(* ================================================================== 4. every other release point *)

Section Release.
Variable c : config.
Variable hash : N -> N.

(* fast_double_body first finishes and FREES the previous deferred migration ... *)
Theorem fast_double_body_frees_previous t :
  let t1 := set_nrem (rehash_all c hash t 0 (length (cur_locks t))) 0 in
  bdead (old t1) = true /\ nrem t1 = 0.
Proof. split; reflexivity. Qed.

(* ... and, when the new migration is not deferred, frees the array it has just superseded *)
Theorem fast_double_body_immediate_frees mode t new_hp :
  hashsize (bhp (old (fd_t3 c hash t new_hp))) < kmax c \/ mode = true ->
  let t' := fast_double_body c hash mode t new_hp in
  bdead (old t') = true /\ nrem t' = 0 /\ forall b s, bget (old t') b s = None.
Proof.
  intros H t'. subst t'. rewrite fast_double_body_unfold. cbv zeta.
  destruct (hashsize (bhp (old (fd_t3 c hash t new_hp))) <? kmax c) eqn:E.
  - split; [reflexivity|]. split; [reflexivity|]. intros b s. apply bget_bdealloc.
  - destruct H as [H| ->]; [apply N.ltb_ge in E; lia|].
    unfold rehash_with_workers.
    split; [reflexivity|]. split; [reflexivity|]. intros b s. apply bget_bdealloc.
Qed.

(* in the terms of Resize.fast_double_body_immediate *)
Corollary fast_double_body_immediate_old_dead mode t :
  cfg_ok c -> settled c hash t -> bhp (cur t) + 1 < 62 ->
  (hashsize (bhp (cur t)) < kmax c \/ mode = true) ->
  let t' := fast_double_body c hash mode t (bhp (cur t) + 1) in
  bdead (old t') = true /\ nrem t' = 0.
Proof.
  intros Hc St Hhp Hcase t'.
  destruct (fd_t3_spec c hash t St Hhp) as [_ [T2 _]]. cbv zeta in T2.
  destruct (fast_double_body_immediate_frees mode t (bhp (cur t) + 1)) as [A [B _]].
  - rewrite T2. exact Hcase.
  - split; assumption.
Qed.

(* the deferred branch keeps it, with the counter at the number of stripes *)
Theorem fast_double_body_deferred_keeps t new_hp :
  kmax c <= hashsize (bhp (old (fd_t3 c hash t new_hp))) ->
  cur_locks (fd_t3 c hash t new_hp) <> [] ->
  let t' := fast_double_body c hash false t new_hp in
  old t' = old (fd_t3 c hash t new_hp) /\ nrem t' = N.of_nat (length (cur_locks (fd_t3 c hash t new_hp))).
Proof.
  intros H Hl t'. subst t'. rewrite fast_double_body_unfold. cbv zeta.
  apply N.ltb_ge in H. rewrite H.
  rewrite set_nrem_nonzero.
  - split; reflexivity.
  - destruct (cur_locks (fd_t3 c hash t new_hp)); [congruence|]. cbn [length]. lia.
Qed.

(* taking the lock (rehash_with_workers) and clear() release the old array *)
Theorem rehash_with_workers_frees t :
  bdead (old (rehash_with_workers c hash t)) = true /\ nrem (rehash_with_workers c hash t) = 0.
Proof. split; reflexivity. Qed.

Theorem cuckoo_clear_frees t :
  bdead (old (cuckoo_clear t)) = true /\ nrem (cuckoo_clear t) = 0 /\
  (forall b s, bget (cur (cuckoo_clear t)) b s = None).
Proof. split; [reflexivity|]. split; [reflexivity|]. intros b s. apply bget_bclear. Qed.

Variable fapply : fnk -> Z -> bool -> Z * bool.

(* destruction returns everything: the slot no longer holds a table (neither array, nor any
   lock array, nor the array kept for a deferred migration survives) *)
Theorem destroy_returns_all w a s :
  get_tab w a = Some s -> active s = false ->
  let w' := fst (step_some c hash fapply w a s ODestroy) in
  snd (step_some c hash fapply w a s ODestroy) = [RNone] /\
  get_tab w' a = None /\ (forall x, x <> a -> get_tab w' x = get_tab w x).
Proof.
  intros Ha Hact. unfold step_some. rewrite Hact. cbn [negb fst snd].
  split; [reflexivity|].
  assert (La : (a < length (tabs w))%nat).
  { unfold get_tab in Ha. destruct (Nat.lt_ge_cases a (length (tabs w))) as [L|G]; [exact L|].
    rewrite nth_overflow in Ha by exact G. discriminate. }
  unfold get_tab, put_tab. cbn [tabs].
  clear Ha. revert a La. induction (tabs w) as [|y r IH]; intros a La; cbn [length] in La; [lia|].
  destruct a as [|a]; cbn [set_nth nth].
  - split; [reflexivity|]. intros [|x] Hx; [congruence|reflexivity].
  - destruct (IH a ltac:(lia)) as [I1 I2]. split; [exact I1|].
    intros [|x] Hx; [reflexivity|]. apply I2. congruence.
Qed.

End Release.
